"""Shared by the symbolic harnesses (C04, C18) and their concrete replays:
construction of the test geometries through PyTOUGH's REAL API (the modules
are passed in: reloaded copies for the symbolic run, the installed ones for
the replay) and the comparison of a TOUGH2 grid with the independent
expectation of harness/geo_oracle.py.  No z3 here; numbers are whatever the
caller supplies (vx.sym proxies or floats)."""
import math
from fractions import Fraction
from harness import geo_oracle as GO

# exact rotations: angle (degrees, clockwise) whose cosine and sine are rational
ROT = {'p345': (Fraction(4, 5), Fraction(3, 5)), 'p51213': (Fraction(5, 13), Fraction(12, 13)),
       'q90': (Fraction(0), Fraction(1))}
ROT_DEG = {'p345': math.degrees(math.atan2(3, 4)), 'p51213': math.degrees(math.atan2(12, 5)), 'q90': 90.0}

# MIX5: 2 quadrilaterals, 2 triangles, 1 pentagon (fixed incidence).  Base
# coordinates are fixed; the mesh is stretched by (sx, sy) > 0, sheared by k
# (x += k*y, |k| < 1), moved by (ox, oy); vertex 4 slides by t in (-1/2, 1/2)
# along x.  Every column stays convex and anticlockwise for all admitted values.
MIX5_BASE = [(0, 0), (2, 0), (4, 0), (0, 2), (2, 2), (4, 2), (0, 4), (4, 4), (1, 5), (3, 5)]
MIX5_COLS = [[0, 1, 4, 3],       # quadrilateral
             [1, 2, 5, 4],       # quadrilateral
             [3, 4, 6],          # triangle
             [4, 5, 7],          # triangle
             [4, 7, 9, 8, 6]]    # pentagon
# the order in which the nodes are HANDED to column(): two of them clockwise on purpose
MIX5_GIVEN = [[0, 1, 4, 3], [4, 5, 2, 1], [3, 4, 6], [7, 5, 4], [4, 7, 9, 8, 6]]
# TRIQUAD = MIX5 without the pentagon (needed for the 'dmplex' block order)
# QUADFAM: unit square with one free vertex (a, b) shared with a second quadrilateral
#   column 0: (0,0) (1,0) (a,b) (0,1);  column 1: (1,0) (2,0) (2,1) (a,b)
#   a, b > 0, a + b > 1, a < 2, a < b + 1   (both convex, anticlockwise)


def _edges(col):
    return [(col[i], col[(i + 1) % len(col)]) for i in range(len(col))]


def _adjacent_pairs(cols):
    cons = []
    for a in range(len(cols)):
        ea = _edges(cols[a])
        for b in range(a + 1, len(cols)):
            if any((q, p) in ea or (p, q) in ea for (p, q) in _edges(cols[b])): cons.append((a, b))
    return cons


def mix_mesh(inp, family):
    sx, sy, k, t, o = inp['sx'], inp['sy'], inp['k'], inp['t'], inp['origin']
    verts = []
    for i, (bx, by) in enumerate(MIX5_BASE):
        x = bx + t if i == 4 else bx
        verts.append((o[0] + sx * (x + k * by), o[1] + sy * by))
    n = 5 if family == 'mix5' else 4
    cols, given = MIX5_COLS[:n], MIX5_GIVEN[:n]
    centre = [None] * n
    third = Fraction(1, 3)
    for ci, col in enumerate(cols):
        if len(col) == 3:       # triangle: mean of the vertices
            centre[ci] = (sum(verts[v][0] for v in col) * third, sum(verts[v][1] for v in col) * third)
    return dict(family=family, verts=verts, cols=cols, given=given, centre=centre,
                cons=_adjacent_pairs(cols), ztop=o[2], dz=list(inp['dz']))


def quadfam_mesh(inp):
    a, b, o = inp['a'], inp['b'], inp['origin']
    base = [(0, 0), (1, 0), (a, b), (0, 1), (2, 0), (2, 1)]
    verts = [(o[0] + x, o[1] + y) for (x, y) in base]
    cols = [[0, 1, 2, 3], [1, 4, 5, 2]]
    given = [[3, 2, 1, 0], [1, 4, 5, 2]]       # first one clockwise
    return dict(family='quadfam', verts=verts, cols=cols, given=given, centre=[None, None],
                cons=[(0, 1)], ztop=o[2], dz=list(inp['dz']))


def oracle_mesh(family, inp):
    if family == 'rect': return GO.rect_mesh(inp['dx'], inp['dy'], inp['dz'], inp['origin'])
    if family == 'quadfam': return quadfam_mesh(inp)
    return mix_mesh(inp, family)


def build(M, family, inp, conv, atm, order, mesh=None):
    """-> (geometry built by the real code, oracle mesh)."""
    if mesh is None: mesh = oracle_mesh(family, inp)
    if family == 'rect':
        geo = M.mulgrid().rectangular(inp['dx'], inp['dy'], inp['dz'], convention=conv,
                                      atmos_type=atm, origin=inp['origin'], block_order=order)
        return geo, mesh
    # irregular: the way mulgrid.from_gmsh() assembles a geometry
    geo = M.mulgrid(type='GENER', convention=conv, atmos_type=atm, block_order=order)
    geo.empty()
    used = sorted(set(v for col in mesh['cols'] for v in col))
    names = {}
    for n, v in enumerate(used):
        names[v] = geo.node_name_from_number(n + 1)
        geo.add_node(M.node(names[v], M.np.array([mesh['verts'][v][0], mesh['verts'][v][1]])))
    for ci, given in enumerate(mesh['given']):
        nm = geo.column_name_from_number(ci + 1)
        geo.add_column(M.column(nm, [geo.node[names[v]] for v in given]))
    for (a, b) in mesh['cons']:
        geo.add_connection(M.connection([geo.columnlist[a], geo.columnlist[b]]))
    geo.add_layers(inp['dz'], inp['origin'][2])
    geo.set_default_surface()
    geo.identify_neighbours()
    geo.setup_block_name_index()
    geo.setup_block_connection_name_index()
    return geo, mesh


def make_blockmap(geo):
    """A concrete block-name map over the full name list: every other block is
    renamed, plus one entry that matches no block."""
    bm = {}
    for i, nm in enumerate(geo.block_name_list):
        if i % 2 == 0: bm[nm] = 'q%04d' % (i + 1)
    bm['zzz99'] = 'q9999'
    return bm


def configure(geo, mesh, angle, atmvol, atmcon, surfaces, rot=None, pivot=None, shift=None, refresh=True):
    """Applies atmosphere parameters, permeability angle, column surfaces
    (None = keep the default), rotation and translation with the real methods;
    returns (mesh, surf) of the oracle after the same transformations.
    refresh=False: the surfaces are only ASSIGNED (documented column property
    `surface`), without set_column_num_layers / the name-index set-up calls."""
    tops, bots, mids = GO.layer_levels(mesh)
    geo.atmosphere_volume = atmvol
    geo.atmosphere_connection = atmcon
    geo.permeability_angle = angle
    surf = [tops[0]] * len(mesh['cols'])
    changed = False
    for k, s in enumerate(surfaces):
        if s is None: continue
        surf[k] = s
        col = geo.columnlist[k]
        col.surface = s
        if refresh: geo.set_column_num_layers(col)
        changed = True
    if changed and refresh:
        geo.setup_block_name_index()
        geo.setup_block_connection_name_index()
    if rot:
        geo.rotate(ROT_DEG[rot], [pivot[0], pivot[1]])
        mesh = GO.rotate_translate(mesh, ROT[rot], pivot)
    if shift is not None:
        geo.translate([shift[0], shift[1], shift[2]])
        mesh = GO.rotate_translate(mesh, None, (0, 0), shift)
        surf = [s + shift[2] for s in surf]
    return mesh, surf


# ---------------------------------------------------------------------------
# C04 round 4: an EXISTING geometry object is edited in place with the real API
# (and possibly converted once before that); the oracle mesh is edited alongside.

def node_of_vertex(geo, mesh):
    """oracle vertex index -> node object of the geometry (build() / rectangular()
    create the nodes in the order of the used vertex indices)."""
    used = sorted(set(v for col in mesh['cols'] for v in col))
    return dict((v, geo.nodelist[n]) for n, v in enumerate(used))


def rename_columns(geo, rename):
    """rename = {column index: new name}, through the real rename_column()."""
    for k in sorted(rename):
        ok = geo.rename_column(geo.columnlist[k].name, rename[k])
        if not ok: raise ValueError('rename_column(%r) refused' % rename[k])


def move_nodes(M, geo, nodes, mesh_b):
    """Moves every node to its position in mesh_b and then does what
    mulgrid.optimize() does after moving nodes: column centre = centroid,
    column area recomputed."""
    for v, nd in nodes.items():
        nd.pos = M.np.array([mesh_b['verts'][v][0], mesh_b['verts'][v][1]])
    for col in geo.columnlist:
        col.centre = col.centroid
        col.get_area()


def _without_column(mesh, surf, k):
    keep = [i for i in range(len(mesh['cols'])) if i != k]
    new = dict((old, n) for n, old in enumerate(keep))
    out = dict(mesh)
    out['cols'] = [mesh['cols'][i] for i in keep]
    out['given'] = None if mesh.get('given') is None else [mesh['given'][i] for i in keep]
    out['centre'] = [mesh['centre'][i] for i in keep]
    out['cons'] = [(new[a], new[b]) for (a, b) in mesh['cons'] if a != k and b != k]
    return out, [surf[i] for i in keep]


def _split_column(mesh, surf, k, p):
    """Quadrilateral k (anticlockwise v0..v3) split across vertex p and the opposite
    one: the column keeps (v_p, v_p+1, v_p+2), a new LAST column gets (v_p+2, v_p+3, v_p)."""
    q = mesh['cols'][k]
    assert len(q) == 4
    t1 = [q[p % 4], q[(p + 1) % 4], q[(p + 2) % 4]]
    t2 = [q[(p + 2) % 4], q[(p + 3) % 4], q[p % 4]]
    V = mesh['verts']
    third = Fraction(1, 3)
    def mean(t): return (sum(V[v][0] for v in t) * third, sum(V[v][1] for v in t) * third)
    out = dict(mesh)
    out['cols'] = [t1 if i == k else c for i, c in enumerate(mesh['cols'])] + [t2]
    out['given'] = None
    out['centre'] = [mean(t1) if i == k else c for i, c in enumerate(mesh['centre'])] + [mean(t2)]
    out['cons'] = _adjacent_pairs(out['cols'])
    return out, list(surf) + [surf[k]]


def apply_edit(M, geo, nodes, mesh, surf, edit):
    """One documented structural edit by the real method, mirrored on (mesh, surf):
    ('delete_column', k) | ('delete_layer_bottom',) | ('split_column', k, p)."""
    kind = edit[0]
    if kind == 'delete_column':
        k = edit[1]
        geo.delete_column(geo.columnlist[k].name)
        return _without_column(mesh, surf, k)
    if kind == 'delete_layer_bottom':
        geo.delete_layer(geo.layerlist[-1].name)
        out = dict(mesh); out['dz'] = list(mesh['dz'])[:-1]
        return out, surf
    if kind == 'split_column':
        k, p = edit[1], edit[2]
        ok = geo.split_column(geo.columnlist[k].name, nodes[mesh['cols'][k][p]].name)
        if not ok: raise ValueError('split_column refused')
        return _split_column(mesh, surf, k, p)
    raise KeyError(kind)


def edit_and_convert(M, T, geo, blockmap, mesh, surf, preconvert=False, mesh_b=None, edits=()):
    """-> (grid, mesh, surf).  Optionally converts the geometry once, then moves
    its nodes to mesh_b / applies the edits, then converts (again) with the SAME
    t2grid object; the grid returned is that of the geometry's final state."""
    grid = T.t2grid()
    nodes = node_of_vertex(geo, mesh)
    if preconvert: grid.fromgeo(geo, blockmap)
    if mesh_b is not None:
        move_nodes(M, geo, nodes, mesh_b)
        mesh = mesh_b
    for e in edits:
        mesh, surf = apply_edit(M, geo, nodes, mesh, surf, tuple(e))
    grid.fromgeo(geo, blockmap)
    return grid, mesh, surf


def compare(ex, geo, grid, blockmap, S, P):
    """Compares the grid with the expectation `ex` (GO.Expected).
    S(ok: bool, label, what) receives structural (concrete per path) checks,
    P((label, kind, lhs, rhs), where) numeric obligations.  Returns a summary
    string, or None if the structure differs (numeric part skipped)."""
    mesh = ex.mesh
    ncol = ex.nc
    # the geometry's own connection order is an input of the conversion; the
    # oracle only requires it to join exactly the pairs of columns that share an edge
    cidx = dict((col.name, i) for i, col in enumerate(geo.columnlist))
    geo_cons = [(cidx[con.column[0].name], cidx[con.column[1].name]) for con in geo.connectionlist]
    S(sorted(tuple(sorted(x)) for x in geo_cons) == sorted(tuple(sorted(x)) for x in mesh['cons']),
      'geometry connections join exactly the columns sharing an edge',
      'geometry connections %r, adjacent pairs %r' % (geo_cons, mesh['cons']))
    ex.mesh = dict(mesh, cons=geo_cons)
    cells = ex.block_cells()
    concells = ex.connection_cells()
    laynames = [lay.name for lay in geo.layerlist]
    colnames = [col.name for col in geo.columnlist]
    def mapped(n): return blockmap.get(n, n)
    def cellname(kc):
        k, cc = kc
        if k == -1:
            cn = geo.atmosphere_column_name if cc is None else colnames[cc]
            return mapped(geo.block_name(laynames[0], cn))
        return mapped(geo.block_name(laynames[k + 1], colnames[cc]))
    want_blocks = [cellname(kc) for kc in cells]
    want_cons = []
    for cc in concells:
        if cc[0] == 'v': want_cons.append((cellname((cc[1], cc[2])), cellname(cc[3])))
        else: want_cons.append((cellname((cc[1], cc[2])), cellname((cc[1], cc[3]))))
    got_blocks = [b.name for b in grid.blocklist]
    got_cons = [tuple(b.name for b in con.block) for con in grid.connectionlist]
    S(len(set(want_blocks)) == len(want_blocks), 'block names distinct', 'two cells share a block name')
    S(got_blocks == want_blocks, 'block list equals expected cells in order',
      'grid blocks %r, expected %r' % (got_blocks, want_blocks))
    S(got_blocks == [mapped(n) for n in geo.block_name_list], 'block list equals announced block_name_list',
      'grid blocks %r, geometry announces %r' % (got_blocks, geo.block_name_list))
    S(got_cons == want_cons, 'connection list equals expected connections in order and orientation',
      'grid connections %r, expected %r' % (got_cons, want_cons))
    S(got_cons == [tuple(mapped(n) for n in cn) for cn in geo.block_connection_name_list],
      'connection list equals announced block_connection_name_list',
      'grid connections %r, geometry announces %r' % (got_cons, geo.block_connection_name_list))
    S(sorted(grid.block.keys()) == sorted(got_blocks) and
      all(grid.block[b.name] is b for b in grid.blocklist) and
      sorted(grid.connection.keys()) == sorted(got_cons) and
      all(grid.connection[tuple(b.name for b in con.block)] is con for con in grid.connectionlist),
      'lookups consistent with lists', 'block / connection dictionaries disagree with the lists')
    if got_blocks != want_blocks or got_cons != want_cons:
        return None
    # columns
    ctr2 = []
    for ci in range(ncol):
        col = geo.columnlist[ci]
        for ob in ex.column_obligations(ci, col.area, col.centre): P(ob, 'column %d' % ci)
        ctr2.append((col.centre[0], col.centre[1]))
    # blocks
    centres = {}
    tot = 0
    for kc, blk in zip(cells, grid.blocklist):
        k, cc = kc
        where = 'block %r (layer %d, column %s)' % (blk.name, k + 1, cc)
        if k == -1:
            P(('atmosphere block volume', 'eq', blk.volume, ex.atm_volume), where)
            S(blk.atmosphere is True, 'atmosphere flag', 'atmosphere block %r not flagged' % blk.name)
            if cc is None:
                S(blk.centre is None, 'single atmosphere block has no centre', 'single atmosphere block has a centre')
            else:
                S(blk.centre is not None, 'atmosphere block has a centre', 'no centre on %r' % blk.name)
                if blk.centre is not None:
                    for ob in [('atmosphere block centre x', 'eq', blk.centre[0], ctr2[cc][0]),
                               ('atmosphere block centre y', 'eq', blk.centre[1], ctr2[cc][1]),
                               ('atmosphere block centre z', 'eq', blk.centre[2], ex.tops[0])]: P(ob, where)
                    centres[kc] = blk.centre
            continue
        S(blk.atmosphere is False, 'underground flag', 'underground block %r flagged as atmosphere' % blk.name)
        S(blk.centre is not None and blk.volume is not None, 'underground block has centre and volume',
          'block %r lacks centre or volume' % blk.name)
        if blk.centre is None or blk.volume is None: return None
        for ob in ex.block_obligations(k, cc, blk.volume, blk.centre, ctr2[cc]): P(ob, where)
        centres[kc] = blk.centre
        tot = tot + blk.volume
    P(('total rock volume = sum of column area x depth to surface', 'eq', tot, ex.total_rock_volume()), 'grid')
    # connections
    for cc, con in zip(concells, grid.connectionlist):
        vals = (con.distance[0], con.distance[1], con.area, con.dircos, con.direction)
        where = 'connection %s' % (tuple(b.name for b in con.block),)
        if cc[0] == 'v':
            _, k, col_i, above = cc
            zc_above = centres[above][2] if above in centres else None
            obs = ex.vertical_obligations(k, col_i, above, vals, centres[(k, col_i)][2], zc_above)
        else:
            _, k, a, b = cc
            obs = ex.horizontal_obligations(k, a, b, vals, centres[(k, a)], centres[(k, b)])
        for ob in obs: P(ob, where)
    return '%d blocks %d connections' % (len(got_blocks), len(got_cons))


def attach_boundary(T, np_, geo, grid, where, bvol, inp, nx, ny):
    """Attach inactive boundary blocks (volume bvol) to a grid made from a rectangular
    geometry: 'side' = one block beside every block of the x-max face (direction 1),
    'top' = one block on top of the top block of every column (direction 3),
    'bottom' = one block under the bottom block of every column (direction 3).
    Used by the C18 check and its replay (same code, symbolic or concrete numbers)."""
    rock = grid.rocktypelist[0]
    dxl = inp['dx'][-1]
    n = 0
    if where == 'side':
        for lay in geo.layerlist[1:]:
            for j in range(ny):
                col = geo.columnlist[j * nx + nx - 1]
                name = geo.block_name(lay.name, col.name)
                if name not in grid.block: continue
                blk = grid.block[name]
                n += 1
                centre = np_.array([blk.centre[0] + dxl / 2 + 0.5, blk.centre[1], blk.centre[2]])
                b = T.t2block('bd%3d' % n, bvol, rock, centre=centre)
                grid.add_block(b)
                grid.add_connection(T.t2connection([blk, b], 1, [dxl / 2, 0.5], inp['dy'][j] * (lay.top - lay.bottom), 0.))
    elif where == 'top':
        for col in geo.columnlist:
            blk = None
            for lay in geo.layerlist[1:]:
                name = geo.block_name(lay.name, col.name)
                if name in grid.block: blk = grid.block[name]; break
            if blk is None: continue
            n += 1
            centre = np_.array([blk.centre[0], blk.centre[1], blk.centre[2] + 1000])
            b = T.t2block('tp%3d' % n, bvol, rock, centre=centre)
            grid.add_block(b)
            grid.add_connection(T.t2connection([blk, b], 3, [0.25, 0.5], col.area, -1.))
    elif where == 'bottom':
        # C18 round 4: one block UNDER the bottom block of every column (direction 3), centre below
        # every rock block centre - e.g. a constant-temperature boundary under the model
        lay = geo.layerlist[-1]
        for col in geo.columnlist:
            blk = grid.block[geo.block_name(lay.name, col.name)]
            n += 1
            centre = np_.array([blk.centre[0], blk.centre[1], blk.centre[2] - 1000])
            b = T.t2block('bt%3d' % n, bvol, rock, centre=centre)
            grid.add_block(b)
            grid.add_connection(T.t2connection([blk, b], 3, [(lay.top - lay.bottom) / 2, 0.5], col.area, -1.))
    else:
        raise KeyError(where)
