"""Replay for C04: the counterexample's concrete values go through the REAL,
un-rewritten mulgrids / t2grids (floats, real numpy) and the resulting grid is
compared with the independent geometric expectation (harness/geo_oracle.py,
evaluated in floats).  Reproduced = the obligation named in the
counterexample fails concretely (relative tolerance 1e-6)."""
import os
import sys
from fractions import Fraction

sys.path.insert(0, os.path.dirname(os.path.dirname(os.path.abspath(__file__))))

RTOL, ATOL = 1e-6, 1e-12


def num(x):
    if isinstance(x, dict) and 'frac' in x:
        return float(Fraction(int(x['frac'][0]), int(x['frac'][1])))
    if isinstance(x, list): return [num(v) for v in x]
    if isinstance(x, (int, Fraction)) and not isinstance(x, bool): return float(x)
    return x


def check_numeric(ob):
    label, kind, lhs, rhs = ob
    if lhs is None or rhs is None: return False
    lhs, rhs = float(lhs), float(rhs)
    if lhs != lhs or rhs != rhs: return False          # NaN
    tol = ATOL + RTOL * max(abs(lhs), abs(rhs))
    if kind == 'eq': return abs(lhs - rhs) <= tol
    if kind == 'ge': return lhs >= rhs - tol
    if kind == 'le': return lhs <= rhs + tol
    raise ValueError(kind)


def build_and_compare(d, M, T):
    """-> (failing labels with detail, summary)"""
    from harness import geo_oracle as GO, geo_build as GB
    family = d['family']
    shape = tuple(d['shape']) if isinstance(d['shape'], list) else d['shape']
    inp = {k: num(v) for k, v in d['inputs'].items()}
    surfaces = [num(s) for s in d['surfaces']]
    atmvol, atmcon = num(d['atmvol']), num(d['atmcon'])
    pivot = num(d['pivot']) if d.get('pivot') else None
    shift = num(d['shift']) if d.get('shift') else None
    built = d.get('built_atm')
    geo, mesh = GB.build(M, family, inp, d['convention'], d['atm'] if built is None else built, d['order'])
    if built is not None: geo.atmosphere_type = d['atm']
    if d.get('rename'): GB.rename_columns(geo, dict((int(k), v) for k, v in d['rename'].items()))
    blockmap = GB.make_blockmap(geo) if d['use_map'] else {}
    mesh2, surf = GB.configure(geo, mesh, d['angle'], atmvol, atmcon, surfaces, d.get('rot'), pivot, shift,
                               refresh=not d.get('raw_surface'))
    mesh_b = GB.oracle_mesh(family, {k: num(v) for k, v in d['inputs_b'].items()}) if d.get('move') else None
    grid, mesh2, surf = GB.edit_and_convert(M, T, geo, blockmap, mesh2, surf, bool(d.get('preconvert')), mesh_b,
                                            [tuple(e) for e in (d.get('edits') or [])])
    ex = GO.Expected(GO.ConcreteOps(), mesh2, surf, d['atm'], d['order'], GO.perm_cos_sin(d['angle']), atmvol, atmcon)
    bad = []
    def S(ok, label, what):
        if not ok: bad.append((label, what if isinstance(what, str) else what()))
    def P(ob, where):
        if not check_numeric(ob):
            bad.append((ob[0], '%s: code %r, geometry %r' % (where, ob[2] if ob[2] is None else float(ob[2]), ob[3] if ob[3] is None else float(ob[3]))))
    summary = GB.compare(ex, geo, grid, blockmap, S, P)
    return bad, summary


def replay(d):
    import mulgrids as M
    import t2grids as T
    try:
        bad, summary = build_and_compare(d, M, T)
    except Exception as ex:
        if d['label'].startswith('no exception'):
            return True, 'the real code raises %s: %s' % (type(ex).__name__, ex)
        import traceback
        return False, 'replay raised %s: %s\n%s' % (type(ex).__name__, ex, traceback.format_exc()[-1500:])
    if d['label'].startswith('no exception'):
        # the symbolic run met an exception; a symbolic division by zero is a NaN / inf in numpy
        nonfinite = [b for b in bad if 'nan' in b[1] or 'inf' in b[1]]
        if nonfinite:
            return True, 'no exception concretely, but non-finite values (numpy division by zero): %s: %s' % nonfinite[0]
    hit = [b for b in bad if b[0] == d['label']]
    if hit:
        return True, '%s: %s' % hit[0] + ('' if len(bad) == 1 else ' (+%d other failing obligations)' % (len(bad) - 1))
    if bad:
        return False, 'obligation %r holds concretely, but others fail: %r' % (d['label'], bad[:3])
    return False, 'all obligations hold concretely (%s)' % summary
