"""Contracts for the CrossHair cross-check of C17 (second, independent engine;
thorough tier only; run with PYTHONPATH=<repo> on the un-rewritten module)."""
from mulgrids import fix_blockname, unfix_blockname


def fix_idempotent(name: str) -> bool:
    """
    pre: len(name) == 5
    pre: all(32 <= ord(ch) <= 126 for ch in name)
    post: __return__
    """
    f = fix_blockname(name)
    return fix_blockname(f) == f
