"""C06 - time-history extraction == stepping through the listing; terminates;
leaves the reader where it was (HYBRID: shapes enumerated, values symbolic).

Per shipped listing file one task (or several, the selections dealt between
them).  The file is served to the REAL, reloaded t2listing through a line
file (c06_common.LineFile: readline / seek / tell over a list of lines).  In
every result set of the file the lines that print the chosen rows (first /
interior / last row of every table, plus rows of the AUTOUGH2 SHORT tables)
are symbolic strings: every digit of every printed number a digit cell, every
sign position a cell over {blank, minus} (harness/C05.symbolize); every other
line is the shipped text.  On that file run

    the real constructor  (detect_simulator, setup_short_types, setup_pos_*, setup_tables_*,
                           setup_table_*, setup_short_indices, first read_tables_*)
    real stepping         (lst.index = k for every result set k; lst._table[name][row][col])
    the real history()    (ordered_selection, skip_to_table_*, skip_to_results_line,
                           read_table_line_*) for every enumerated selection shape

and z3 decides the obligations over all digit / sign values at once (see
C06.notes.md).  Termination is a bounded-budget verdict of the line file.
"""
import itertools
import os
import signal
import time
import types
import z3
from vx import sym, strs, loader, report
from vx.sym import SReal, SInt, SBool
from vx.strs import SStr
from harness import c05_common as cc
from harness import c06_common as c6
from harness import C05 as c05

PID = 'C06'
MAXKEYS = int(os.environ.get('C06_MAXKEYS', '48') or 48)
REPO = loader.REPO
ROOT = os.path.join(REPO, 'tests', 'listing')

_LD = None
def _load():
    global _LD
    if _LD is None:
        _LD = loader.load(['t2listing'])
        c05._install_re_shim()
    return _LD


def construct(ld, lines, path):
    """the real t2listing(filename) on a line file"""
    f = c6.LineFile(lines)
    ld.t2listing.io = types.SimpleNamespace(open=lambda *a, **k: f)
    return ld.t2listing.t2listing(path), f


# ---------------------------------------------------------------------------
# concrete pre-run: which lines hold which rows (chooses the symbolic cells; not part of the verdict)

_PREP = {}

def _tup(nm): return (nm,) if isinstance(nm, str) else tuple(nm)


def prepare(rel, derive=None):
    """derive: None = the shipped file; else a c06_common.derive() kind (C07 file tier)"""
    pkey = rel if not derive else (rel, derive)
    if pkey in _PREP: return _PREP[pkey]
    ld = _load()
    L = ld.t2listing
    T = L.t2listing
    path = os.path.join(ROOT, rel)
    raw = c6.derive(cc.read_lines(path), derive)
    fam = cc.family_of(raw)
    sets = c6.scan_sets(raw, fam)
    lines = c6.numbered(raw)
    log = dict(table=None, layout=[], last=None, writes={})
    saved = {}
    def wrap(cls, name, fn):
        saved[(cls, name)] = cls.__dict__[name]
        setattr(cls, name, fn(cls.__dict__[name]))
    def w_setup(orig):
        def g(self, tablename):
            log['table'] = tablename
            return orig(self, tablename)
        return g
    def w_layout(kind):
        def mk(orig):
            def g(self, line, *a, **k):
                # which table: during set-up the table being set up; later (update_row_format_TOUGH2 while
                # reading) the table whose column list is passed in
                tn = log['table']
                cols_ = a[-1] if a else None
                for t_, tab_ in getattr(self, '_table', {}).items():
                    if tab_.column_name is cols_: tn = t_
                log['layout'].append((tn, kind, getattr(line, 'no', None)))
                return orig(self, line, *a, **k)
            return g
        return mk
    def w_readline(orig):
        def g(self, line, *a, **k):
            log['last'] = getattr(line, 'no', None)
            return orig(self, line, *a, **k)
        return g
    def w_setitem(orig):
        def g(self, key, value):
            row = key if isinstance(key, int) else self._row[key]
            log['writes'][(id(self), row)] = log['last']
            return orig(self, key, value)
        return g
    try:
        wrap(T, 'setup_table_TOUGH2', w_setup); wrap(T, 'setup_table_AUTOUGH2', w_setup)
        wrap(T, 'start_of_values', w_layout('start')); wrap(T, 'parse_table_line', w_layout('parse'))
        wrap(T, 'read_table_line_TOUGH2', w_readline); wrap(T, 'read_table_line_AUTOUGH2', w_readline)
        wrap(L.listingtable, '__setitem__', w_setitem)
        lst, f = construct(ld, lines, path)
        if [s['pos'] for s in sets] != list(lst._pos) or [s['short'] for s in sets] != list(lst._short) or \
           [s['time'] for s in sets] != [float(x) for x in lst.times]:
            raise ValueError('%s: result sets found by the text scan differ from the reader\'s _pos/_short/times' % rel)
        bounds = [s['pos'] for s in sets] + [len(raw)]
        fullk = [i for i, s in enumerate(sets) if not s['short']]
        tables = {}
        for tn in lst._tablenames:
            tab = lst._table[tn]
            names = [_tup(x) for x in tab.row_name]
            n = len(names)
            cnt = {}
            for x in names: cnt[x] = cnt.get(x, 0) + 1
            tables[tn] = dict(spec=c6.SPEC[tn], nkeys=tab.num_keys, cols=list(tab.column_name), nrows=n, names=names,
                              unique=[cnt[x] == 1 for x in names], sig=c6.table_signature(tab.num_keys, tab.column_name),
                              int_first=tab.column_name[0] == 'I', allow_rev=bool(tab.allow_reverse_keys),
                              rows=sorted(set([0, n // 2, n - 1])), short_rows=[], ref_ends=None)
        # rows of the SHORT tables (AUTOUGH2): the first and the last row printed there
        for kw in getattr(lst, 'short_types', []):
            tn = lst.table_type(kw[0] * 5)
            if tn in tables:
                rs = sorted(lst.short_indices.get(kw, {}).keys(), key=lambda r: lst.short_indices[kw][r])
                rs = [r for r in rs if isinstance(r, int) and 0 <= r < tables[tn]['nrows']]
                pick = [rs[0], rs[-1]] if len(rs) > 1 else rs
                tables[tn]['short_rows'] = pick
                tables[tn]['rows'] = sorted(set(tables[tn]['rows']) | set(pick))
        layout = set()
        for tn, kind, no in log['layout']:
            if no is not None: layout.add(no)
            if kind == 'parse' and tn in tables and no is not None:
                tables[tn]['ref_ends'] = [t['end'] for t in cc.tokenize_row(raw[no], tables[tn]['int_first'])]
        # oracle lines, by the independent text scan
        oracle = {}
        for ik in range(len(sets)):
            heads = c6.table_spans(raw, bounds[ik], bounds[ik + 1])
            for tn, ti in tables.items():
                trs = c6.table_rows(raw, bounds[ik], bounds[ik + 1], ti['sig'], ti['int_first'], heads)
                byname = {}
                for no, nm, toks in trs: byname[nm] = no          # a row printed twice (TOUGH2_MP): the last print is the one kept
                for r in ti['rows']:
                    oracle[(tn, r, ik)] = byname.get(ti['names'][r]) if ti['unique'][r] else None
        # rows longer than every row of their table at the first result set make the reader re-infer the column
        # positions when first met (update_row_format_TOUGH2), whichever of them comes first in the navigation
        # order: all of them count as layout lines (digits symbolic, signs as printed)
        if fam != 'AUTOUGH2':
            b0 = (bounds[fullk[0]], bounds[fullk[0] + 1])
            for tn, ti in tables.items():
                first = c6.table_rows(raw, b0[0], b0[1], ti['sig'], ti['int_first'])
                longest = max([len(raw[no].rstrip()) for no, _, _ in first] or [0])
                for (t2, r, ik), no in oracle.items():
                    if t2 == tn and no is not None and len(raw[no].rstrip()) > longest: layout.add(no)
        # cross-check with the lines the reader consumed while stepping (full result sets)
        unread = []
        for j, ik in enumerate(fullk):
            log['writes'].clear()
            lst.index = j
            for tn, ti in tables.items():
                for r in ti['rows']:
                    got = log['writes'].get((id(lst._table[tn]), r))
                    if oracle[(tn, r, ik)] is None and not ti['unique'][r]:
                        oracle[(tn, r, ik)] = got           # a name printed for two rows: no scan by name; take the reader's line
                    elif got is None and oracle[(tn, r, ik)] is not None:
                        # the file prints the row but stepping did not read it (the table was skipped): not for the
                        # pre-run to judge - the row's line becomes symbolic and the obligations decide
                        unread.append((tn, r, ik))
                    elif got != oracle[(tn, r, ik)]:
                        raise ValueError('%s: row %d of table %s at result set %d: text scan finds line %r, stepping reads line %r' % (
                            rel, r, tn, ik, oracle[(tn, r, ik)], got))
        # lines parsed for the layout while stepping (a later, longer row extends the column positions):
        # the last one parsed for a table gives the reference column ends
        for tn, kind, no in log['layout']:
            if no is not None: layout.add(no)
            if kind == 'parse' and tn in tables and no is not None:
                tables[tn]['ref_ends'] = [t['end'] for t in cc.tokenize_row(raw[no], tables[tn]['int_first'])]
    finally:
        for (cls, name), v in saved.items(): setattr(cls, name, v)
    P = dict(rel=rel, path=path, raw=raw, fam=fam, sets=sets, bounds=bounds, fullk=fullk, tables=tables, layout=layout,
             oracle=oracle, simulator=lst.simulator, tablenames=list(lst._tablenames),
             has_short=any(s['short'] for s in sets), unread=unread)
    P['derive'] = derive
    _PREP[pkey] = P
    return P


# ---------------------------------------------------------------------------
# selection shapes

def sequences(tnames, tier):
    seqs = [(t,) for t in tnames] + list(itertools.permutations(tnames, 2))
    if tier == 'thorough':
        seqs += list(itertools.permutations(tnames, 3))
        if len(tnames) > 3: seqs += [tuple(tnames), tuple(reversed(tnames))]
    return seqs


def _item(P, tn, r, how, ci, upper=False):
    """one (table, row, column) item: dict(arg=(spec, key, column), table, row, rev, col)"""
    ti = P['tables'][tn]
    nm = ti['names'][r]
    spec = ti['spec'].upper() if upper else ti['spec']
    col = ti['cols'][ci]
    if how == 'int' or not ti['unique'][r]:
        return dict(arg=(spec, r, col), table=tn, row=r, rev=False, col=col, how='int')
    if how == 'rev' and ti['nkeys'] == 2 and ti['allow_rev'] and nm[::-1] not in ti['names']:
        return dict(arg=(spec, nm[::-1], col), table=tn, row=r, rev=True, col=col, how='rev')
    key = nm[0] if ti['nkeys'] == 1 else nm
    return dict(arg=(spec, key, col), table=tn, row=r, rev=False, col=col, how='name')


def _invalid_items(P):
    """specifications that select nothing: unknown block name, reversed name in a table that
    does not allow it, unknown table letter, a table this listing does not have"""
    out = []
    tn0 = P['tablenames'][0]; t0 = P['tables'][tn0]
    bad = '#?@!%'
    out.append(dict(arg=(t0['spec'], bad if t0['nkeys'] == 1 else (bad, bad), t0['cols'][0]), table=None, why='unknown-name'))
    out.append(dict(arg=('x', 0, t0['cols'][0]), table=None, why='unknown-table-letter'))
    for tn, sp in (('primary', 'p'), ('generation', 'g'), ('connection', 'c'), ('element2', 'e2')):
        if tn not in P['tables']:
            out.append(dict(arg=(sp, 0, t0['cols'][0]), table=None, why='table-not-in-listing')); break
    for tn, ti in P['tables'].items():
        if ti['nkeys'] == 2 and not ti['allow_rev']:
            nm = ti['names'][0]
            if nm[::-1] not in ti['names']:
                out.append(dict(arg=(ti['spec'], nm[::-1], ti['cols'][0]), table=None, why='reversed-name-not-allowed')); break
    return out


def variants(P, seq):
    """list of (variant name, form, items) for the ordered table sequence seq"""
    T = P['tables']
    def rows(tn): ti = T[tn]; n = ti['nrows']; return 0, n // 2, n - 1
    def cols(tn): n = len(T[tn]['cols']); return 0, n // 2, n - 1
    out = []
    v0 = [_item(P, tn, rows(tn)[0], 'name', cols(tn)[0]) for tn in seq]
    if len(seq) == 1: out.append(('first-by-name', 'tuple', v0))
    out.append(('first-by-name', 'list', v0))
    out.append(('last-by-index', 'list', [_item(P, tn, rows(tn)[2], 'int', cols(tn)[2], upper=True) for tn in seq]))
    out.append(('interior-by-reversed-name', 'list', [_item(P, tn, rows(tn)[1], 'rev', cols(tn)[1]) for tn in seq]))
    per = []
    for tn in seq:
        r0, rm, rl = rows(tn); c0, cm, cl = cols(tn)
        per.append([_item(P, tn, rl, 'name', c0), _item(P, tn, r0, 'int', cl), _item(P, tn, rm, 'rev', cm),
                    _item(P, tn, r0, 'name', cm), _item(P, tn, rl, 'rev', cl, upper=True),
                    # an integer-index item directly after a reversed name (no by-name item in between)
                    _item(P, tn, rm, 'int', c0)])
    mixed = [x for grp in itertools.zip_longest(*per) for x in grp if x is not None]
    inv = _invalid_items(P)
    for k, bad in enumerate(inv): mixed.insert(min(len(mixed), 1 + 2 * k), bad)
    out.append(('mixed-interleaved-with-invalid', 'list', mixed))
    if P['has_short']:
        s1, s2 = [], []
        for tn in seq:
            sr = T[tn]['short_rows']
            c0, cm, cl = cols(tn)
            s1.append(_item(P, tn, sr[0] if sr else rows(tn)[0], 'name', cl))
            s2.append(_item(P, tn, sr[-1] if sr else rows(tn)[2], 'int', c0))
            if sr: s2.append(_item(P, tn, rows(tn)[1], 'name', cm))      # a row that is NOT in the short table
        out.append(('short-row-by-name', 'list', s1))
        out.append(('short-row-by-index', 'list', s2))
    return out


def starts_for(P, tier):
    n = len(P['fullk'])
    if n <= (4 if tier == 'quick' else 8): return list(range(n))
    base = [0, n - 1, n // 2, 1, n - 2, n // 3, (2 * n) // 3, 2]
    out = []
    for x in base:
        if x not in out: out.append(x)
    return out[:4 if tier == 'quick' else 8]


def calls_for(P, tier):
    """every (sequence, variant, short flag, starting index) to run, in a fixed order"""
    out = []
    starts = starts_for(P, tier)
    k = 0
    for seq in sequences(P['tablenames'], tier):
        for vi, (vname, form, items) in enumerate(variants(P, seq)):
            flags = (True, False) if (P['has_short'] or vname == 'last-by-index') else (True,)
            for short in flags:
                out.append(dict(seq=seq, variant=vname, form=form, items=items, short=short, start=starts[k % len(starts)]))
                k += 1
    return out


# ---------------------------------------------------------------------------

class _Alarm(object):
    """wall-clock backstop for a call that loops without reading lines"""
    def __init__(self, seconds): self.seconds = seconds
    def __enter__(self):
        def h(sig, frm): raise c6.NonTermination('wall-clock backstop of %d s reached' % self.seconds)
        try:
            self.old = signal.signal(signal.SIGALRM, h); signal.setitimer(signal.ITIMER_REAL, self.seconds)
        except ValueError: self.old = None
    def __exit__(self, *a):
        if self.old is not None:
            signal.setitimer(signal.ITIMER_REAL, 0); signal.signal(signal.SIGALRM, self.old)


def decide(c, items):
    """items: list of (formula, label).  ONE query for the conjunction; when it is refuted the
    model of that query names a falsified conjunct.  Returns None (all hold) or (label, model).
    (Ctx.prove_all examines every obligation separately once the conjunction fails; with a
    broken history() hundreds of them fail together, so the first witness is enough here.)"""
    forms = []
    for f, lab in items:
        if isinstance(f, SBool): f = f.e
        if isinstance(f, bool): f = z3.BoolVal(f)
        forms.append((f, lab))
    if not forms: return None
    n = len(forms)
    conj = z3.simplify(z3.And(*[f for f, _ in forms]))
    c.stats['obligations'] += n
    if z3.is_true(conj):
        c.stats['ob_unsat'] += n; c.stats['ob_trivial'] = c.stats.get('ob_trivial', 0) + n
        return None
    r, m = c.solve(z3.Not(conj))
    if r == 'unsat':
        c.stats['ob_unsat'] += n; c.stats['ob_batched'] = c.stats.get('ob_batched', 0) + n
        return None
    if r != 'sat':
        c.stats['ob_unknown'] += n; c.unknowns.append(dict(label=forms[0][1], info=None))
        return None
    for f, lab in forms:
        if z3.is_false(m.eval(f, model_completion=True)):
            c.stats['ob_sat'] += 1; c.stats['ob_unsat'] += n - 1
            return lab, m
    c.stats['obligations'] -= n
    for f, lab in forms:          # (not expected) no conjunct is false under the model: examine them one by one
        if c.prove(f, lab) == 'sat': return lab, c.failures[-1]['model']
    return None


def _e(v):
    """z3 term of a value read by the real code (SReal / python number)"""
    return sym.lift_real(v)


def _nonfinite(v):
    return isinstance(v, float) and (v != v or v in (float('inf'), float('-inf')))


def _is_pair(res):
    return isinstance(res, tuple) and len(res) == 2 and not isinstance(res[0], (tuple, list))


def _seqkey(seq): return '+'.join(seq)


def printed_check(c, P, SF, tn, r, ik, row, distinct=None, counters=None):
    """Obligation (as C05 obligation 2): every cell of `row` (dict column -> value read by the
    real code) of chosen row r of table tn at result set ik equals the independent evaluation of
    the printed cells of that column (blank trailing cells 0.0).  Returns None (holds) or
    (label, model); model None = the cell is nan."""
    ti = P['tables'][tn]
    no = P['oracle'][(tn, r, ik)]
    s = SF['symlines'][no]
    cells = s.cells if isinstance(s, SStr) else list(s)
    toks = SF['toks_of'][no]
    colof = c6.column_of_tokens(toks, ti['ref_ends'] or [], len(ti['cols']), P['fam'])
    items, forms = [], {}
    for ci, col in enumerate(ti['cols']):
        js = [j for j, cj in enumerate(colof) if cj == ci]
        a = row[col]
        if isinstance(a, float) and a != a: return 'nan:%s' % col, None
        ae = _e(a)
        if not js:
            if None in colof:
                if counters is not None: counters['unattributed'] += 1
                continue
            items.append((ae == 0, 'blank:%s' % col)); continue
        exp, (lo, hi), oparts = c05.expected_term(cells, toks[js[0]])
        rparts = strs.num_parts(ae)
        fm = z3.And(*[x == y for x, y in zip(rparts, oparts)]) if rparts is not None else (ae == exp)
        sf = z3.simplify(fm)
        if distinct is not None and not z3.is_true(sf): distinct.add(('printed', sf.hash()))
        forms['col:%s' % col] = (lo, hi, ae, exp, rparts, oparts, fm)
        items.append((fm, 'col:%s' % col))
    for lab, res_ in c.prove_all(items):
        m = None
        if lab in forms and res_ == 'sat': m = c05._confirm(c, lab, *forms[lab])
        elif res_ == 'sat': m = ([x for x in c.failures if x['label'] == lab] or [dict(model=None)])[-1]['model']
        if m is not None: return lab, m
    return None


def symbolic_file(P, headers=True):
    """The lines of the file with the chosen rows' lines (and, with headers=True, the TOTAL TIME
    of every TOUGH2-family result-set header) replaced by symbolic strings.  Terms are built
    once per task; the domain constraints `cons` are to be added on every path.  (Shared with
    the file-level tier of C07.)"""
    raw, sets, tables, oracle = P['raw'], P['sets'], P['tables'], P['oracle']
    symlines, cons, toks_of = {}, [], {}
    for (tn, r, ik), no in sorted(oracle.items(), key=lambda kv: (kv[1] is None, kv[1])):
        if no is None or no in symlines: continue
        toks = cc.tokenize_row(raw[no], tables[tn]['int_first'])
        toks_of[no] = toks
        # sign cells: all, except in the layout lines and before a number printed with a letterless
        # three-digit exponent (its sign cell would fork fortran_float's fallback cascade)
        signs = set() if no in P['layout'] else set(j for j, t in enumerate(toks) if not (t['exp'] is not None and t['exp']['letter'] is None))
        s, cs = c05.symbolize('L%d' % no, raw[no], toks, signs)
        symlines[no] = s
        if cs: cons.append(z3.And(*cs))
    # TOUGH2-family result-set headers: the digits of the printed TOTAL TIME are symbolic too (sign as printed);
    # AUTOUGH2 headers stay as shipped (read_header_AUTOUGH2 searches the line for words)
    time_exp, headlines = {}, []
    if headers and P['fam'] != 'AUTOUGH2':
        for ik, st_ in enumerate(sets):
            no = st_['head']
            tk = cc.tokenize_row(raw[no])
            if no in symlines or not tk or tk[0]['exp'] is None or raw[no][:tk[0]['start']].strip(): continue
            s_, cs = c05.symbolize('H%d' % no, raw[no], tk[:1], set())
            if isinstance(s_, str): continue
            symlines[no] = s_; headlines.append(no)
            cons.append(z3.And(*cs))
            time_exp[ik] = c05.expected_term(s_.cells, tk[0])
    lines = list(raw)
    for no, s in symlines.items(): lines[no] = s

    def subs_for(m, nos):
        """characters that differ from the shipped file in the given lines, for a model"""
        out = {}
        for no in sorted(set(nos)):
            s = symlines.get(no)
            if s is None or isinstance(s, str): continue
            txt = c05.concretize(m, s, raw[no]) if m is not None else raw[no]
            d = {str(p): ch for p, (ch, ch0) in enumerate(zip(txt, raw[no])) if ch != ch0}
            if d: out[str(no)] = d
        return out
    return dict(symlines=symlines, cons=cons, toks_of=toks_of, time_exp=time_exp, headlines=headlines, lines=lines, subs_for=subs_for)


def task_file(rel, tier, part=0, nparts=1):
    ld = _load()
    P = prepare(rel)
    raw, sets, fullk, tables, oracle = P['raw'], P['sets'], P['fullk'], P['tables'], P['oracle']
    nsets, nfull = len(sets), len(fullk)
    name = '%s[%d/%d]' % (rel, part + 1, nparts)
    failures, samples, distinct, notes = [], [], set(), []
    counters = dict(calls=0, nonterm=0, items=0, reached=0, unattributed=0)
    calls = [cl for i, cl in enumerate(calls_for(P, tier)) if i % nparts == part]

    SF = symbolic_file(P)
    symlines, cons, toks_of, time_exp, headlines, lines = SF['symlines'], SF['cons'], SF['toks_of'], SF['time_exp'], SF['headlines'], SF['lines']
    budget = c6.budget(len(raw), nsets)
    subs_for = SF['subs_for']

    def h(c):
        for con in cons: c.add(con)
        first = not samples

        def fail(key, what, formula, call=None, nos=(), model=None):
            """obligation `formula` (z3 / False); on 'sat' a failure record with replay data"""
            if model is None and formula is False:
                # the obligation does not mention a symbolic cell: it fails iff this path is reachable
                # (its ground constraints are satisfiable); the shipped text is then a witness
                c.stats['obligations'] += 1
                r, _ = c.solve(z3.BoolVal(True))
                if r != 'sat':
                    c.stats['ob_unsat' if r == 'unsat' else 'ob_unknown'] += 1
                    if r != 'unsat': c.unknowns.append(dict(label=key.split('/')[-1], info=None))
                    return r
                c.stats['ob_sat'] += 1
            elif model is None:
                r = c.prove(formula, key.split('/')[-1])
                if r != 'sat': return r
                model = c.failures[-1]['model']
            data = dict(file=os.path.join('tests', 'listing', rel), substitutions=subs_for(model, nos), clause=key.split('/')[-1])
            if call is not None:
                data.update(selection=[list(x['arg']) for x in call['items']], form=call['form'], short=call['short'],
                            start=call['start'], tables=list(call['seq']), variant=call['variant'])
            failures.append(dict(key=key, what=what, replay=data))
            return 'sat'

        # ---- the real constructor on the line file
        try:
            lst, f = construct(ld, lines, P['path'])
        except sym.EngineAbort: raise
        except Exception as ex:
            fail('%s/constructor/no-exception' % rel, 't2listing(%s) raised %s: %s' % (rel, type(ex).__name__, c05._extext(ex)), False,
                 nos=list(symlines))
            return 'constructor-raises'
        if list(lst._tablenames) != P['tablenames'] or list(lst._pos) != [s['pos'] for s in sets]:
            fail('%s/constructor/layout' % rel, 'tables / result-set positions differ from the concrete pre-run', False, nos=list(symlines))
            return 'constructor-differs'

        # ---- stepping: the reference values
        ref, tm, st = {}, {}, {}
        for j, ik in enumerate(fullk):
            try:
                lst.index = j
            except sym.EngineAbort: raise
            except Exception as ex:
                fail('%s/stepping/no-exception' % rel, 'index = %d raised %s: %s' % (j, type(ex).__name__, c05._extext(ex)), False, nos=list(symlines))
                return 'stepping-raises'
            tm[j], st[j] = lst.time, lst.step
            for tn, ti in tables.items():
                tab = lst._table[tn]
                for r in ti['rows']:
                    if oracle[(tn, r, ik)] is not None: ref[(tn, r, ik)] = tab[r]
        # rows of SHORT result sets cannot be stepped to: the reference is the real row reader on the row's line
        for (tn, r, ik), no in oracle.items():
            if no is None or not sets[ik]['short']: continue
            tab = lst._table[tn]
            vals = lst.read_table_line(lines[no], tab.num_columns, tab.row_format)
            ref[(tn, r, ik)] = dict(zip(tab.column_name, list(vals) + [0.0] * (tab.num_columns - len(vals))))

        # ---- reference value == independent evaluation of the printed cells (as C05 obligation 2)
        for (tn, r, ik), row in sorted(ref.items()):
            no = oracle[(tn, r, ik)]
            ti = tables[tn]
            hit = printed_check(c, P, SF, tn, r, ik, row, distinct, counters)
            if hit is not None:
                lab, m = hit
                if m is None:
                    fail('%s/%s/printed-value' % (rel, tn), 'row %d column %s at result set %d read as nan' % (r, lab.split(':', 1)[1], ik), False, nos=[no])
                else:
                    fail('%s/%s/printed-value' % (rel, tn), 'row %d %s at result set %d: value in the table differs from the printed number' % (r, lab, ik),
                         None, nos=[no], model=m,
                         call=dict(items=[_item(P, tn, r, 'int', ti['cols'].index(lab.split(':', 1)[1]))], form='list', short=True,
                                   start=0, seq=(tn,), variant='printed-value'))

        if first:
            samples.append(dict(file=rel, simulator=P['simulator'], result_sets=nsets, full=nfull, tables=P['tablenames'],
                                symbolic_lines=len(symlines), example_line=repr(next(iter(symlines.values())))[:240]))

        # ---- history(), grouped by starting index
        times_ok = {}        # (time term, result set) pairs already shown equal to the printed header on this path
        for s0 in sorted(set(cl['start'] for cl in calls)):
            positioned = False
            snap = None
            for cl in [x for x in calls if x['start'] == s0]:
                if not positioned:
                    lst._index = s0; lst.index = s0
                    snap = {tn: lst._table[tn]._data.copy() for tn in P['tablenames']}
                    t_before, s_before = lst.time, lst.step
                    positioned = True
                counters['calls'] += 1
                base = '%s/%s' % (rel, _seqkey(cl['seq']))
                what0 = '%s history(%s) variant %s short=%s from index %d' % (rel, '+'.join(cl['seq']), cl['variant'], cl['short'], s0)
                arg = [x['arg'] for x in cl['items']]
                if cl['form'] == 'tuple': arg = arg[0]
                nos = [oracle[(x['table'], x['row'], ik)] for x in cl['items'] if x['table'] for ik in range(nsets)
                       if oracle.get((x['table'], x['row'], ik)) is not None]
                f.arm(budget)
                res = err = None
                try:
                    with _Alarm(120):
                        res = lst.history(arg, short=cl['short'])
                except c6.NonTermination as ex:
                    err = ('terminates', 'does not return: %s' % ex)
                except sym.EngineAbort:
                    f.disarm(); raise
                except Exception as ex:
                    err = ('no-exception', 'raised %s: %s' % (type(ex).__name__, c05._extext(ex)))
                f.disarm()
                if err is not None:
                    if err[0] == 'terminates': counters['nonterm'] += 1
                    fail('%s/%s' % (base, err[0]), '%s %s' % (what0, err[1]), False, call=cl, nos=nos)
                    positioned = False
                    continue
                # shape of the result
                valid = [x for x in cl['items'] if x['table']]
                if cl['form'] == 'tuple' or (len(cl['items']) == 1 and _is_pair(res)):
                    ok = _is_pair(res); res = [res]
                else:
                    ok = isinstance(res, list) and all(_is_pair(x) for x in res)
                if ok and len(res) == len(cl['items']): got = [res[i] for i, x in enumerate(cl['items']) if x['table']]
                elif ok and len(res) == len(valid): got = list(res)
                else: ok = False
                if ok and len(res) == len(cl['items']):
                    ok = all(len(res[i][1]) == 0 for i, x in enumerate(cl['items']) if not x['table'])
                if not ok:
                    fail('%s/shape' % base, '%s: result is not one (times, values) pair per valid item in the order asked for '
                         '(invalid items empty or dropped): %s' % (what0, repr(res)[:120]), False, call=cl, nos=nos)
                    positioned = False
                    continue
                # times and values per item
                obl, tforms = [], {}
                bad = None
                for x, (tt, vv) in zip(valid, got):
                    counters['items'] += 1
                    tn, r = x['table'], x['row']
                    visit = [ik for ik in range(nsets) if not sets[ik]['short'] or (cl['short'] and oracle.get((tn, r, ik)) is not None)]
                    want_t = [sets[ik]['time'] for ik in visit]
                    tl = list(tt)
                    if len(tl) != len(visit) or any((not isinstance(t, SReal)) and float(t) != w for t, w in zip(tl, want_t)):
                        bad = ('times', 'item %r: times %s..., result sets visited have times %s...' % (x['arg'], repr(tl)[:80], repr(want_t)[:80])); break
                    for k, ik in enumerate(visit):
                        if not isinstance(tl[k], SReal): continue
                        if ik not in time_exp:
                            bad = ('times', 'item %r: time %d is not a number read from a result-set header' % (x['arg'], k)); break
                        key_ = (tl[k].e.get_id(), ik)
                        if key_ in times_ok: continue
                        exp, (lo, hi), oparts = time_exp[ik]
                        rparts = strs.num_parts(tl[k].e)
                        fm = z3.And(*[a_ == b_ for a_, b_ in zip(rparts, oparts)]) if rparts is not None else (tl[k].e == exp)
                        distinct.add(('time', z3.simplify(fm).hash()))
                        lab = 'times:%d:%d' % (cl['items'].index(x), ik)
                        tforms[lab] = (lo, hi, tl[k].e, exp, rparts, oparts, fm)
                        obl.append((fm, lab)); times_ok[key_] = tl[k]
                    if bad: break
                    if len(vv) != len(visit):
                        bad = ('values', 'item %r: %d values for %d result sets' % (x['arg'], len(vv), len(visit))); break
                    for k, ik in enumerate(visit):
                        hv, rv = vv[k], ref[(tn, r, ik)][x['col']]
                        if _nonfinite(hv) and not _nonfinite(rv):
                            bad = ('values', 'item %r at result set %d: history gives %r' % (x['arg'], ik, hv)); break
                        if _nonfinite(rv): continue         # (reported by the printed-value obligation)
                        if not isinstance(hv, SReal) and not isinstance(rv, SReal):
                            good = (hv == (-rv if x['rev'] else rv))
                            if not good: bad = ('reverse-negated' if x['rev'] else 'values',
                                                'item %r at result set %d: history %r, stepping %r' % (x['arg'], ik, hv, rv)); break
                            counters['reached'] += 1
                            continue
                        fm = (_e(hv) == (-_e(rv) if x['rev'] else _e(rv)))
                        sf = z3.simplify(fm)
                        if not z3.is_true(sf): distinct.add(('hist', sf.hash()))
                        obl.append((fm, ('reverse-negated' if x['rev'] else 'values') + ':%d:%d' % (cl['items'].index(x), ik)))
                    if bad: break
                if bad:
                    fail('%s/%s' % (base, bad[0]), '%s: %s' % (what0, bad[1]), False, call=cl, nos=nos)
                else:
                    counters['reached'] += len(obl)
                    tob = [x_ for x_ in obl if x_[1].startswith('times:')]
                    for lab, res_ in (c.prove_all(tob) if tob else []):
                        # (the component-wise form is sufficient, not necessary: re-examined by value as in C05)
                        if res_ != 'sat': continue
                        times_ok.clear()
                        m = c05._confirm(c, lab, *tforms[lab])
                        if m is None: continue
                        kind, ii, ik = lab.split(':')
                        fail('%s/times' % base, '%s: item %r: the time returned for result set %s differs from the time printed in its header' % (
                            what0, cl['items'][int(ii)]['arg'], ik), None, call=cl, nos=nos + headlines, model=m)
                        break
                    hit = decide(c, [x_ for x_ in obl if not x_[1].startswith('times:')])
                    if hit is not None:
                        lab, m = hit
                        kind, ii, ik = lab.split(':')
                        fail('%s/%s' % (base, kind), '%s: item %r at result set %s: history value differs from %sthe value read by stepping' % (
                            what0, cl['items'][int(ii)]['arg'], ik, 'minus ' if kind != 'values' else ''), None, call=cl, nos=nos, model=m)
                # state afterwards
                st_bad = None
                if not (isinstance(lst.index, int) and lst.index == s0): st_bad = ('restore:index', 'index %r, was %r' % (lst.index, s0))
                elif lst.time is not t_before and not (lst.time == t_before) is True: st_bad = ('restore:time', 'time %r, was %r' % (lst.time, t_before))
                elif lst.step is not s_before and not (lst.step == s_before) is True: st_bad = ('restore:step', 'step %r, was %r' % (lst.step, s_before))
                else:
                    cellf = []
                    for tn in P['tablenames']:
                        a, b = lst._table[tn]._data, snap[tn]
                        if a.shape != b.shape: st_bad = ('restore:tables', 'table %s changed shape' % tn); break
                        for i, (u, v) in enumerate(zip(a.flat, b.flat)):
                            if u is v: continue
                            if isinstance(u, SReal) or isinstance(v, SReal): cellf.append((_e(u) == _e(v), 'restore:tables:%s:%d' % (tn, i)))
                            elif not (u == v): st_bad = ('restore:tables', 'table %s cell %d is %r, was %r' % (tn, i, u, v)); break
                        if st_bad: break
                    if not st_bad and cellf:
                        hit = decide(c, cellf)
                        if hit is not None:
                            fail('%s/restore:tables' % base, '%s: a table cell on display changed (%s)' % (what0, hit[0]), None, call=cl, nos=nos, model=hit[1])
                            positioned = False
                if st_bad:
                    fail('%s/%s' % (base, st_bad[0]), '%s: afterwards %s' % (what0, st_bad[1]), False, call=cl, nos=nos)
                    positioned = False
                # (times, shape, index / time / step are concrete on this path: constants for the solver)
                c.prove_all([(True, 'shape'), (True, 'times'), (True, 'restore:index'), (True, 'restore:time-step'), (True, 'terminates'), (True, 'no-exception')])
                counters['reached'] += 6
        r, _ = c.reachable()
        if r != 'sat': return 'unreachable'
        return 'checked' if counters['reached'] else 'nothing-reached'

    res = sym.explore(h, sym.Ctx(timeout_ms=10000), max_paths=3, profile_repo=(tier == 'quick' and part == 0 and len(raw) < 2500))
    extra = dict(distinct_obligations=len(distinct), simulator=P['simulator'], calls=counters['calls'], items=counters['items'],
                 nonterminating_calls=counters['nonterm'], symbolic_lines=len(symlines), unattributed_cells=counters['unattributed'],
                 result_sets=nsets, tables=P['tablenames'])
    if not counters['reached']: extra['vacuous'] = True
    # two witnesses per key are enough (the framework replays up to three); at most MAXKEYS distinct keys per
    # file are handed on for replay (a broken history() fails for nearly every table list of every file)
    seen, keep = {}, []
    for fl in failures:
        if fl['key'] not in seen and len(seen) >= MAXKEYS: continue
        seen[fl['key']] = seen.get(fl['key'], 0) + 1
        if seen[fl['key']] <= 2: keep.append(fl)
    extra['failing_keys'] = len(set(fl['key'] for fl in failures))
    extra['failing_keys_not_replayed'] = extra['failing_keys'] - len(seen)
    return report.summarize(name, res, keep, samples, extra=extra)


# ---------------------------------------------------------------------------

QUICK_FILES = ('AUTOUGH2/1/case1.listing', 'AUTOUGH2/2/case2.listing', 'AUTOUGH2/3/case3.listing', 'AUTOUGH2/5/case5.listing',
               'AUTOUGH2/6/case6.listing',
               'TOUGH2/1/r1q.listing', 'TOUGH2/2/rfp.listing', 'TOUGH2/8/OUTFILE', 'TOUGH2/11/case11.listing',
               'TOUGH2-MP/1/OUTPUT_DATA', 'TOUGH2-MP/2/OUTPUT_DATA', 'TOUGH2-MP/3/OUTPUT_DATA', 'TOUGH2-MP/6/OUTPUT_DATA', 'TOUGH2-MP/7/OUTPUT_DATA',
               'TOUGH3/1/OUTPUT', 'TOUGH3/2/OUTPUT', 'TOUGH3/4/OUTPUT',
               'TOUGHREACT/1/case1.out', 'TOUGHREACT/2/case2.out',
               'TOUGHplus/1/case1.dat', 'TOUGHplus/2/case2.dat', 'TOUGHplus/3/1p_out.dat', 'TOUGHplus/4/t3T_out.dat')


def build_tasks(tier):
    files = cc.listing_files(REPO)
    if tier == 'quick': files = [f for f in files if f.replace(os.sep, '/') in QUICK_FILES]
    only = [x for x in os.environ.get('C06_FILES', '').split(',') if x]      # development aid: restrict to some files
    if only: files = [f for f in cc.listing_files(REPO) if any(x in f for x in only)]
    tasks = []
    for rel in files:
        tasks.append((task_file, dict(rel=rel, tier=tier, part=0, nparts=1)))
    return tasks, files


def run(tier, seed, rep):
    _load()
    tasks, files = build_tasks(tier)
    results = report.run_tasks(tasks)
    rep.add_results(results)
    ncalls = nitems = nlines = nont = 0
    for r in results:
        if r.get('error'): continue
        ex = r.get('extra', {})
        if ex.get('vacuous'): rep.harness_error('%s: no obligation was reached' % r['name'])
        if r.get('stats', {}).get('paths', 0) > 1:
            rep.outside.append('%s: %d paths (a symbolic sign cell forked the reader)' % (r['name'], r['stats']['paths']))
        ncalls += ex.get('calls', 0); nitems += ex.get('items', 0); nlines += ex.get('symbolic_lines', 0); nont += ex.get('nonterminating_calls', 0)
    rep.extra['history_calls'] = ncalls
    rep.extra['operations_executed'] = ncalls      # every history() call is a transition of the reader's state (counted in coverage.transitions)
    rep.extra['history_items'] = nitems
    rep.extra['nonterminating_calls'] = nont
    rep.bounds += [
        '%d shipped listing files (%s; editor backups *~ and *.npy skipped)' % (len(files), 'the smaller files of each simulator flavour' if tier == 'quick' else 'all'),
        'table selections: every single table and every ordered pair of the tables the file contains' +
        (', every ordered triple, and all tables in file order and reversed' if tier == 'thorough' else ''),
        'per ordered table list 4-7 selection variants: first row by name / first column (tuple form for single tables, and list form); last row by integer '
        'index / last column / upper-case table letter; interior row by reversed name (connection tables) / middle column; a mixed list of 6 items per table '
        '(rows out of order, the same row twice, name / index / reversed name) interleaved across the tables with invalid specifications in between; '
        'AUTOUGH2 files with SHORT output: rows of the short tables by name and by index together with a row that is not in the short table',
        'short = True and False for every variant of files with SHORT output (other files: short=False for one variant per table list)',
        'starting index: every full result set when there are <= %d, else %d of them (first, last, interior), dealt over the calls' % ((4, 4) if tier == 'quick' else (8, 8)),
        'symbolic values: %d lines in total - in EVERY result set the lines of the first / interior / last row of every table (and of the first / last row of every '
        'SHORT table): every digit (mantissa and exponent) a symbolic digit, every sign position a symbolic cell over {blank, minus}; in the lines from which '
        'setup_table_* infers the layout (first and longest row of the first result set) and before numbers printed with a letterless three-digit '
        'exponent only the digits; the count includes the header line of every result set of TOUGH2-family files, whose TOTAL TIME digits are symbolic' % nlines,
        'termination budget per history() call: (lines in the file) x (result sets + 2) readline calls, at most 1000 end-of-file returns, 120 s wall clock',
    ]
    rep.outside += [
        'row names, column names, marker / table-header lines, step numbers and AUTOUGH2 result-set headers are the shipped text: result shape, order, index / step '
        'and AUTOUGH2 times are compared concretely on each explored path',
        'rows other than the chosen ones are the shipped text (they are read by stepping, skipped by history())',
        'start_datetime; selections of more than 3 tables except the two all-table lists; editor backups (reading them never ends) and .npy files',
        'termination is decided per explored path with a finite budget: the control flow of history() does not depend on the symbolic cells',
        'IEEE rounding of float(): values are exact rationals sign*digits*10^exponent',
    ]
    rep.assumptions += [
        'line file: t2listing only stores tell() results, compares them with each other and passes them to seek(); positions are line numbers',
        'float() of cells with concrete punctuation and symbolic digit/sign cells: accepted exactly when CPython accepts the skeleton with digits written as 0; '
        'value = sign*digits*10^(exponent - fraction digits) (vx.strs._numcells_read, validated by C05 at every run)',
        're.findall(\'\\.[0-9]+\') / re.finditer(escape(\'.\')) evaluated on the concrete punctuation (no symbolic cell can be a point)',
        'which line prints which row is found by a text scan written without reference to t2listing (result-set headers, table header words, '
        'printed names in the columns of the table\'s first row) and cross-checked against the lines the real reader consumes while stepping',
        'rows of SHORT result sets cannot be stepped to: their reference value is the real read_table_line on the row\'s line',
    ]
    rep.functions.update(['t2listing.py:t2listing.history', 't2listing.py:ordered_selection', 't2listing.py:tablename_from_specification',
                          't2listing.py:t2listing.skip_to_table_AUTOUGH2', 't2listing.py:t2listing.skip_to_table_TOUGH2',
                          't2listing.py:t2listing.skip_to_table_TOUGHplus', 't2listing.py:t2listing.skip_to_results_line',
                          't2listing.py:t2listing.read_table_line_TOUGH2', 't2listing.py:t2listing.read_table_line_AUTOUGH2',
                          't2listing.py:t2listing.set_index', 't2listing.py:t2listing.read_tables_TOUGH2', 't2listing.py:t2listing.read_tables_AUTOUGH2',
                          't2listing.py:t2listing.read_tables_TOUGHplus', 't2listing.py:t2listing.setup_pos_TOUGH2', 't2listing.py:t2listing.setup_pos_AUTOUGH2',
                          't2listing.py:t2listing.setup_table_TOUGH2', 't2listing.py:t2listing.setup_table_AUTOUGH2', 't2listing.py:t2listing.rewind',
                          't2listing.py:t2listing.next_table_TOUGH2', 't2listing.py:t2listing.next_table_TOUGHplus', 't2listing.py:t2listing.next_table_AUTOUGH2',
                          't2listing.py:listingtable.__getitem__', 'fixed_format_file.py:fortran_float'])
    rep.process_failures()
    return rep.finish(rule='one obligation per (file, ordered table list, variant, short flag, starting index, item, result set): path condition AND '
                      'NOT(history value == (+/-) value read by stepping) must be unsat; per (file, table, row, result set, column): value read == independent '
                      'evaluation of the printed cells; per call: times, shape, restored state, termination within the budget, no exception; '
                      'distinct = distinct non-constant formulas by z3 AST hash')
