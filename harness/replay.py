"""Concrete replay of solver counterexamples on the REAL modules, run under
the repository's own interpreter (/venv/bin/python, PYTHONPATH=/repo).
usage: replay.py Cnn path.json ; exit 0 = violation reproduced, 2 = not."""
import importlib.util
import json
import os
import sys

def main():
    pid, path = sys.argv[1], sys.argv[2]
    here = os.path.dirname(os.path.abspath(__file__))
    spec = importlib.util.spec_from_file_location('replay_' + pid, os.path.join(here, 'replay_%s.py' % pid))
    mod = importlib.util.module_from_spec(spec)
    spec.loader.exec_module(mod)
    rec = json.load(open(path))
    ok, msg = mod.replay(rec['data'])
    print(msg)
    sys.exit(0 if ok else 2)

def num(x):
    """json number / frac dict -> float or int"""
    from fractions import Fraction
    if isinstance(x, dict) and 'frac' in x:
        return float(Fraction(int(x['frac'][0]), int(x['frac'][1])))
    return x

if __name__ == '__main__':
    main()
