"""Replay for C17: concrete evaluation of the name obligations on the real,
un-rewritten mulgrids module with independent plain-Python oracles (no z3)."""
from string import ascii_lowercase, ascii_uppercase, ascii_letters, digits, punctuation

ALPHABETS = {
    'lower': ascii_lowercase, 'upper': ascii_uppercase, 'letters52': ascii_lowercase + ascii_uppercase,
    'abc': 'abc', 'atm': 'atm', 'scrambled': 'qwertyuiopasdfghjklzxcvbnm', 'dups': 'abracadabra', 'wxyz2': 'wWxXyYzZ',
    'one': 'a', 'oneboth': 'aA',
}

def fold(text, case):
    return text.upper() if case == 'u' else text.lower() if case == 'l' else text

def passes_on(mg, chars, case, **kw):
    """what the real rectangular() hands to node_name_from_number"""
    captured = []
    orig = mg.mulgrid.node_name_from_number
    def spy(self, num, justfn, chs, sp):
        captured.append(chs); return orig(self, num, justfn, chs, sp)
    mg.mulgrid.node_name_from_number = spy
    try:
        try: g = mg.mulgrid().rectangular(kw.pop('xblocks', [1.0]), [1.0], kw.pop('zblocks', [1.0]), chars=chars, case=case, **kw)
        except Exception as ex: g = ex
    finally:
        mg.mulgrid.node_name_from_number = orig
    return g, (captured[0] if captured else None)

def uniq(s):
    out = ''
    for ch in s:
        if ch not in out: out += ch
    return out

def digits_kind(kind, conv):
    return conv == 0 if kind == 'layer' else conv in (1, 2)

def name_length(kind, conv):
    col = [3, 2, 3, 3][conv]
    return 5 - col if kind == 'layer' else col

def capacity(kind, conv, nchars, spaces):
    L = name_length(kind, conv)
    if digits_kind(kind, conv): return 10 ** L - 1
    if spaces: return sum(nchars ** k for k in range(1, L + 1))
    return nchars ** L - 1

def well_formed(name, kind, conv, just, chars, spaces, num):
    dig = digits_kind(kind, conv)
    if dig and kind != 'layer': just = 'r'
    ok = digits if dig else chars
    core = name.strip(' ')
    if any(ch not in ok for ch in core): return False        # also catches embedded blanks
    if just == 'r' and name != core.rjust(len(name)): return False
    if just == 'l' and name != core.ljust(len(name)): return False
    if not dig and not spaces and ' ' in name: return False
    if num >= 1 and core == '': return False
    return True

def fix_o(n):
    if n[2] in digits and n[4] in digits and n[3] == ' ': return n[:3] + '0' + n[4]
    return n

def unfix_o(n):
    if n[3] in digits and n[4] in digits: return n[:3] + '%2d' % int(n[3:5])
    return n

def valid_o(n):
    first = ascii_letters + digits + ' ' + punctuation
    return all(ch in first for ch in n[:3]) and (n[3] in digits + ' ') and n[4] in digits

def justfn(just): return str.rjust if just == 'r' else str.ljust


def gen_call(mg, g, kind, num, just, chars, spaces):
    try:
        return getattr(g, kind + '_name_from_number')(num, justfn(just), chars, spaces), None
    except mg.NamingConventionError as ex:
        return None, ex


def replay_gen(mg, d):
    kind, conv, just, spaces = d['kind'], d['conv'], d['just'], d['spaces']
    base, _, case = d['alpha'].partition('^')
    want = uniq(fold(ALPHABETS[base], case or None))
    probs = []
    if case:        # the set as the real rectangular() prepares it
        _, chars = passes_on(mg, ALPHABETS[base], case)
        if chars != want: probs.append('rectangular(chars=%r, case=%r) passes %r to the name generators, expected %r' % (ALPHABETS[base], case, chars, want))
    else:
        chars = want
    g = mg.mulgrid(convention=conv)
    L = name_length(kind, conv); cap = capacity(kind, conv, len(want), spaces)
    names = {}
    for tag in ('i', 'j'):
        num = int(d[tag])
        nm, err = gen_call(mg, g, kind, num, just, chars, spaces)
        names[tag] = nm
        if err is not None:
            if num <= cap: probs.append('%s=%d raises NamingConventionError although capacity is %d' % (tag, num, cap))
            continue
        if not isinstance(nm, str) or len(nm) != L: probs.append('%s=%d gives %r, length is not %d' % (tag, num, nm, L)); continue
        if num > cap: probs.append('%s=%d gives %r beyond capacity %d' % (tag, num, nm, cap))
        if not well_formed(nm, kind, conv, just, want, spaces, num): probs.append('%s=%d gives malformed name %r' % (tag, num, nm))
    if names['i'] is not None and names['i'] == names['j'] and int(d['i']) != int(d['j']):
        probs.append('numbers %d and %d both get the name %r' % (int(d['i']), int(d['j']), names['i']))
    return probs


def replay_roundtrip(mg, d):
    conv, just, spaces, atmos, pair = d['conv'], d['just'], d['spaces'], d['atmos'], d['pair']
    chars = uniq(ALPHABETS[d['alpha']])
    g = mg.mulgrid(convention=conv, atmos_type=atmos)
    g.add_layers([1.0])
    surface = g.layerlist[0].name
    try:
        l = surface if pair != 'underground' else g.layer_name_from_number(int(d['nl']), justfn(just), chars, spaces)
        c = g.atmosphere_column_name if pair == 'atm-single' else g.column_name_from_number(int(d['nc']), justfn(just), chars, spaces)
    except mg.NamingConventionError:
        return []
    blk = g.block_name(l, c)
    probs = []
    if not isinstance(blk, str) or len(blk) != 5: probs.append('block name %r of layer %r column %r is not 5 characters' % (blk, l, c))
    if g.column_name(blk) != c: probs.append('column_name(%r) = %r, built from column %r' % (blk, g.column_name(blk), c))
    if g.layer_name(blk) != l: probs.append('layer_name(%r) = %r, built from layer %r' % (blk, g.layer_name(blk), l))
    return probs


def run_addlayers(mg, conv, just, chars, spaces, n, base):
    g = mg.mulgrid(convention=conv)
    real = g.layer_name_from_number
    calls = []
    def shifted(num, jf, chs, sp):
        calls.append(num)
        return real(base + num, jf, chs, sp)
    if base: g.layer_name_from_number = shifted
    else:
        def plain(num, jf, chs, sp):
            calls.append(num); return real(num, jf, chs, sp)
        g.layer_name_from_number = plain
    cap = capacity('layer', conv, len(uniq(chars)), spaces)
    try:
        g.add_layers([1.0] * n, 0.0, just, chars, spaces)
    except mg.NamingConventionError:
        if base + calls[-1] <= cap: return ['NamingConventionError at layer number %d, capacity %d' % (base + calls[-1], cap)]
        return []
    names = [lay.name for lay in g.layerlist]
    probs = []
    if len(names) != n + 1: probs.append('%d thicknesses gave %d layers (offset %d): %r' % (n, len(names) - 1, base, names[:8]))
    if any(x == names[0] for x in names[1:]): probs.append('a layer is named like the surface layer %r (offset %d)' % (names[0], base))
    if len(set(names)) != len(names): probs.append('duplicate layer names (offset %d)' % base)
    if any(len(x) != name_length('layer', conv) for x in names): probs.append('layer name of wrong length')
    if any(a >= b for a, b in zip(calls, calls[1:])): probs.append('layer numbers not increasing')
    return probs


def replay_addlayers(mg, d):
    if not d.get('abstract'):
        return run_addlayers(mg, d['conv'], d['just'], ALPHABETS[d['alpha']], d['spaces'], d['n'], int(d['base']))
    # abstract counterexample: look for a concrete instance in the catalogue (alphabets where the
    # surface layer name is an early layer number are included)
    for alpha in ('atm', 'abc', 'lower', 'upper', 'letters52', 'at'):
        chars = ALPHABETS.get(alpha, alpha)
        for just in ('r', 'l'):
            for spaces in (True, False):
                for n in (d['n'], 30, 60, 120):
                    p = run_addlayers(mg, d['conv'], just, chars, spaces, n, 0)
                    if p: return ['%s (chars=%r justify=%s spaces=%s n=%d)' % (p[0], chars, just, spaces, n)]
    return []


def replay_newkey(mg, d):
    conv, just, spaces = d['conv'], d['just'], d['spaces']
    chars = uniq(ALPHABETS[d['alpha']])
    g = mg.mulgrid(convention=conv)
    L = g.colname_length
    cap = sum(len(chars) ** k for k in range(1, L + 1)) if spaces else len(chars) ** L - 1
    keys = d['keys']; istart = int(d['istart'])
    dd = dict((k, q) for q, k in enumerate(keys))
    if d['which'] == 'column': g.column = dd
    else: g.node = dd
    fn = g.new_column_name if d['which'] == 'column' else g.new_node_name
    def name_of(i):      # own bijective / positional base-n rendering
        s = ''
        if spaces:
            while i > 0:
                i -= 1; s = chars[i % len(chars)] + s; i //= len(chars)
        else:
            while i > 0:
                s = chars[i % len(chars)] + s; i //= len(chars)
            s = chars[0] * (L - len(s)) + s
        return justfn(just)(s, L)
    first_free = istart + 1
    while name_of(first_free) in dd: first_free += 1
    try:
        nm, i = fn(istart, justfn(just), chars, spaces)
    except mg.NamingConventionError:
        if first_free <= cap: return ['naming error although number %d (name %r) is free and fits' % (first_free, name_of(first_free))]
        return []
    probs = []
    if first_free > cap: probs.append('name space exhausted after %d but %r returned' % (istart, nm))
    if i != first_free or nm != name_of(first_free): probs.append('returned (%r, %d), first unused is (%r, %d)' % (nm, i, name_of(first_free), first_free))
    if nm in dd: probs.append('returned key %r is in the dictionary' % nm)
    if len(nm) != L: probs.append('returned key %r has wrong length' % nm)
    return probs


def replay_fix(mg, d):
    n = ''.join(chr(int(x)) for x in d['codes'])
    f, u, v = mg.fix_blockname, mg.unfix_blockname, mg.valid_blockname
    probs = []
    chk = d['check']
    try:
        if chk == 'fix':
            if f(f(n)) != f(n): probs.append('fix(fix(%r)) = %r but fix = %r' % (n, f(f(n)), f(n)))
            if f(n) != fix_o(n): probs.append('fix(%r) = %r, expected %r' % (n, f(n), fix_o(n)))
        elif chk == 'unfix':
            if u(n) != unfix_o(n): probs.append('unfix(%r) = %r, print form is %r' % (n, u(n), unfix_o(n)))
            if u(u(n)) != u(n): probs.append('unfix not idempotent on %r' % n)
        elif chk == 'print':
            if valid_o(n):
                want = n[:3] + (' ' if n[3] == '0' else n[3]) + n[4]
                if u(f(n)) != want: probs.append('unfix(fix(%r)) = %r, simulator prints %r' % (n, u(f(n)), want))
                if f(u(f(n))) != f(n): probs.append('fix(unfix(fix(%r))) = %r != fix = %r' % (n, f(u(f(n))), f(n)))
        elif chk == 'cycle':
            x1 = f(u(n)); x2 = f(u(x1))
            if x1 != x2: probs.append('%r -> %r -> %r: second cycle still changes the name' % (n, x1, x2))
            if len(x1) != 5: probs.append('length changed: %r' % x1)
        elif chk == 'fixunfixfix':
            exc = (n[2] not in digits) and n[3] == '0' and n[4] in digits
            same = f(u(f(n))) == f(n)
            if same == exc: probs.append('fix(unfix(fix(%r))) %s fix(n), exceptional class membership %s' % (n, '==' if same else '!=', exc))
        elif chk == 'valid':
            if bool(v(n)) != valid_o(n): probs.append('valid_blockname(%r) = %r, expected %r' % (n, v(n), valid_o(n)))
    except Exception as ex:
        probs.append('%s raised on %r: %s: %s' % (chk, n, type(ex).__name__, ex))
    return probs


def replay_mapping(mg, d):
    items = [(k, v) for k, v in d['items']]
    bm = dict(items)
    try:
        mg.fix_block_mapping(bm)
    except Exception as ex:
        return ['fix_block_mapping raised %s: %s' % (type(ex).__name__, ex)]
    want = dict((fix_o(k), fix_o(v)) for k, v in items)
    if bm != want: return ['fix_block_mapping(%r) gave %r, expected %r' % (dict(items), bm, want)]
    return []


def replay_uniq(mg, d):
    s = d['text']
    try: got = mg.uniqstring(s)
    except Exception as ex: return ['uniqstring raised %s: %s' % (type(ex).__name__, ex)]
    if got != uniq(s): return ['uniqstring(%r) = %r, expected %r' % (s, got, uniq(s))]
    return []


def replay_rect(mg, d):
    text, case, spaces, conv, just, nx = d['text'], d['case'], d['spaces'], d['conv'], d['just'], d['nx']
    want = uniq(fold(text, case))
    g, passed = passes_on(mg, text, case, xblocks=[1.0] * nx, zblocks=[1.0, 1.0], convention=conv, atmos_type=1, justify=just, spaces=spaces)
    probs = []
    if passed is not None and passed != want:
        probs.append('rectangular(chars=%r, case=%r) passes %r to the name generators, expected %r' % (text, case, passed, want))
    if isinstance(g, mg.NamingConventionError):
        if 2 * (nx + 1) <= capacity('node', conv, len(want), spaces) and 2 <= capacity('layer', conv, len(want), spaces):
            probs.append('NamingConventionError although the grid fits the name space of %r' % want)
        return probs
    if isinstance(g, Exception):
        return probs + ['rectangular(chars=%r, case=%r) raised %s: %s' % (text, case, type(g).__name__, g)]
    nodes = [x.name for x in g.nodelist]; cols = [x.name for x in g.columnlist]; lays = [x.name for x in g.layerlist]
    blks = list(g.block_name_list)
    if (len(nodes), len(cols), len(lays), len(blks)) != (2 * (nx + 1), nx, 3, 3 * nx):
        probs.append('%d nodes, %d columns, %d layers, %d blocks instead of %d, %d, 3, %d' % (len(nodes), len(cols), len(lays), len(blks), 2 * (nx + 1), nx, 3 * nx))
    for what, xs in (('node', nodes), ('column', cols), ('layer', lays), ('block', blks)):
        if len(set(xs)) != len(xs): probs.append('duplicate %s names: %r' % (what, xs))
    if any(len(b) != 5 for b in blks): probs.append('block name not five characters')
    if len(g.block_name_index) != len(blks): probs.append('block index lost an entry')
    return probs


def replay_inversion(mg, d):
    """geometry with the given layer and column names: the block of (last layer, last column)"""
    import numpy as np
    conv = d['conv']
    g = mg.mulgrid(convention=conv, atmos_type=2)
    for q, x in enumerate(d['layers']): g.add_layer(mg.layer(x, -1.0 - q, -0.5 - q, -1.0 * q))
    for q, x in enumerate(d['columns']): g.add_column(mg.column(x, [], np.array([1.0 * q, 0.0]), 0.0))
    l, c = d['layers'][-1], d['columns'][-1]
    blk = g.block_name(l, c)
    raw = (c + l) if conv in (0, 3) else (l + c)
    probs = []
    if not isinstance(blk, str) or len(blk) != 5: probs.append('block name %r of layer %r column %r is not 5 characters' % (blk, l, c))
    if blk != fix_o(raw): probs.append('block name %r is not the repaired concatenation %r' % (blk, fix_o(raw)))
    if g.column_name(blk) != c: probs.append('column_name(%r) = %r, built from column %r (columns of the geometry: %r)' % (blk, g.column_name(blk), c, d['columns']))
    if g.layer_name(blk) != l: probs.append('layer_name(%r) = %r, built from layer %r (layers of the geometry: %r)' % (blk, g.layer_name(blk), l, d['layers']))
    return probs


TINY_MSH = """$MeshFormat
2.2 0 8
$EndMeshFormat
$Nodes
6
1 0 0 0
2 10 0 0
3 20 0 0
4 0 10 0
5 10 10 0
6 20 10 0
$EndNodes
$Elements
2
1 3 2 0 1 1 2 5 4
2 3 2 0 1 2 3 6 5
$EndElements
"""

class _Rec(object):
    def __init__(self, **kw): self.__dict__.update(kw)

def tiny_layermesh(np):
    """duck-typed Layermesh mesh with the geometry of TINY_MSH and two layers"""
    xy = [(0., 0.), (10., 0.), (20., 0.), (0., 10.), (10., 10.), (20., 10.)]
    nodes = [_Rec(index=k, pos=np.array(list(p))) for k, p in enumerate(xy)]
    cols = [_Rec(index=0, node=[nodes[q] for q in (0, 1, 4, 3)], centre=np.array([5., 5.]), surface=0.0),
            _Rec(index=1, node=[nodes[q] for q in (1, 2, 5, 4)], centre=np.array([15., 5.]), surface=0.0)]
    lays = [_Rec(thickness=1.0, top=0.0), _Rec(thickness=1.0, top=-1.0)]
    return _Rec(node=nodes, column=cols, layer=lays)

def replay_gmsh(mg, d):
    import os, tempfile
    conv, caller, spaces, just, text = d['conv'], d['caller'], d['spaces'], d['just'], d['text']
    path = os.path.join(tempfile.gettempdir(), 'c17_replay_tiny_%d.msh' % os.getpid())
    with open(path, 'w') as fh: fh.write(TINY_MSH)
    CL = name_length('column', conv)
    try:
        try:
            if d.get('source') == 'layermesh':
                import numpy as np
                g = mg.mulgrid().from_layermesh(tiny_layermesh(np), convention=conv, atmosphere_type=2, justify=just, chars=text, spaces=spaces)
            else:
                g = mg.mulgrid(convention=caller).from_gmsh(path, [1.0, 1.0], convention=conv, atmos_type=2, justify=just, chars=text, spaces=spaces)
        except mg.NamingConventionError as ex:
            nd = len(set(text))
            if 6 <= capacity('node', conv, nd, spaces) and 2 <= capacity('layer', conv, nd, spaces):
                return ['NamingConventionError (%s) although 6 nodes, 2 columns and 2 layers fit the name space of %r under convention %d' % (ex, text, conv)]
            return []
    finally:
        os.remove(path)
    nodes = [x.name for x in g.nodelist]; cols = [x.name for x in g.columnlist]; lays = [x.name for x in g.layerlist]
    blks = list(g.block_name_list)
    probs = []
    if (len(nodes), len(cols), len(lays)) != (6, 2, 3): probs.append('%d nodes, %d columns, %d layers instead of 6, 2, 3' % (len(nodes), len(cols), len(lays)))
    if any(len(x) != CL for x in nodes + cols): probs.append('node / column names %r %r not of length %d (convention %d)' % (nodes[:2], cols, CL, conv))
    okc = set(digits + ' ') if conv in (1, 2) else set(text + ' ')
    if any(ch not in okc for x in nodes + cols for ch in x): probs.append('node / column names %r %r have characters outside %r' % (nodes[:2], cols, ''.join(sorted(okc))))
    if any(len(x) != 5 - CL for x in lays): probs.append('layer names %r not of length %d' % (lays, 5 - CL))
    for what, xs in (('node', nodes), ('column', cols), ('layer', lays), ('block', blks)):
        if len(set(xs)) != len(xs): probs.append('duplicate %s names %r' % (what, xs))
    if len(blks) != 4 or any(len(b) != 5 for b in blks): probs.append('block names %r: not 4 names of five characters' % (blks,))
    want = [(l, c) for l in lays[1:] for c in cols]
    if len(want) == len(blks):
        for b, (l, c) in zip(blks, want):
            if g.column_name(b) != c or g.layer_name(b) != l:
                probs.append('block %r built from layer %r column %r splits into layer %r column %r' % (b, l, c, g.layer_name(b), g.column_name(b))); break
    return probs


def replay(d):
    import mulgrids as mg
    fn = {'gen': replay_gen, 'rect': replay_rect, 'roundtrip': replay_roundtrip, 'addlayers': replay_addlayers, 'newkey': replay_newkey,
          'fix': replay_fix, 'mapping': replay_mapping, 'uniq': replay_uniq, 'inversion': replay_inversion, 'gmsh': replay_gmsh}[d['task']]
    try:
        probs = fn(mg, d)
    except Exception as ex:
        import traceback
        return True, 'real code raised %s: %s\n%s' % (type(ex).__name__, ex, traceback.format_exc()[-800:])
    if probs: return True, '; '.join(probs[:4])
    return False, 'all name obligations hold on the real code for %r' % (d,)
