"""Replay for C13: really write an incon file with the real t2incon, read it
back, compare, write again, compare the bytes."""
import os, tempfile
from fractions import Fraction

def num(x):
    if isinstance(x, dict) and 'frac' in x:
        return float(Fraction(int(x['frac'][0]), int(x['frac'][1])))
    if isinstance(x, list): return [num(v) for v in x]
    return x

def printed(name):
    return name[:3] + (' ' if name[3] == '0' else name[3]) + name[4]

def held(name):
    p = printed(name)
    if p[2].isdigit() and p[4].isdigit() and p[3] == ' ': p = p[:3] + '0' + p[4]
    return p

def replay(d):
    import numpy as np
    from t2incons import t2incon, t2blockincon
    sh = d['shape']
    inc = t2incon()
    anyperm = any(sh['perm']) if isinstance(sh['perm'], list) else sh['perm']
    if anyperm or sh.get('toughreact'): inc.simulator = 'TOUGHREACT'
    for b in d['blocks']:
        perm = None if b['permeability'] is None else np.array(num(b['permeability']))
        inc[b['name']] = t2blockincon(num(b['variables']), b['name'], num(b['porosity']), perm, b['nseq'], b['nadd'])
    if d['timing']:
        inc.timing = {k: num(v) for k, v in d['timing'].items()}
    tmp = tempfile.mkdtemp()
    f1, f2 = os.path.join(tmp, 'a.incon'), os.path.join(tmp, 'b.incon')
    problems = []
    try:
        inc.write(f1, sh['reset'])
        nv = sh['nvars'] if sh['nvars'] > 4 else None
        rkw = dict(check_blocknames=False) if sh.get('freenames') else {}
        if sh.get('reader') == 'used':
            # the reading object has read another file before (the other flavour, one block, timing kept)
            pre = d.get('pre') or dict(toughreact=not (anyperm or sh.get('toughreact')), name='zz  1', variables=[1.5], porosity=0.1,
                                       permeability=[1e-15, 2e-15, 3e-15], timing=dict(kcyc=123456, iter=654321, nm=7, tstart=0.0, sumtim=2.5))
            pinc = t2incon()
            if pre['toughreact']: pinc.simulator = 'TOUGHREACT'
            pk = np.array(num(pre['permeability'])) if (pre['toughreact'] and pre['permeability'] is not None) else None
            pinc[pre['name']] = t2blockincon(num(pre['variables']), pre['name'], num(pre['porosity']), pk)
            pinc.timing = {k: num(v) for k, v in pre['timing'].items()}
            f0 = os.path.join(tmp, 'p.incon')
            pinc.write(f0, False)
            inc2 = t2incon(f0)
            os.remove(f0)
            inc2.read(f1, nv, **rkw)
        else:
            inc2 = t2incon(f1, num_variables=nv, **rkw)
        if inc2.num_blocks != len(d['blocks']): problems.append('block count %d != %d' % (inc2.num_blocks, len(d['blocks'])))
        else:
            for b, r in zip(d['blocks'], inc2):
                if r.block != held(b['name']): problems.append('name %r -> %r' % (b['name'], r.block))
                exp = [None if v is None else float('%20.13e' % v) for v in num(b['variables'])]
                if list(r.variable) != exp: problems.append('variables %r -> %r' % (exp, r.variable))
                if b['porosity'] is None:
                    if r.porosity is not None: problems.append('porosity appeared')
                elif r.porosity != float('%15.9e' % num(b['porosity'])): problems.append('porosity %r -> %r' % (b['porosity'], r.porosity))
                if b['permeability'] is None:
                    if r.permeability is not None: problems.append('permeability appeared')
                elif r.permeability is None or list(r.permeability) != [float('%15.9e' % v) for v in num(b['permeability'])]: problems.append('permeability differs')
                if (r.nseq, r.nadd) != (b['nseq'], b['nadd']): problems.append('nseq/nadd %r -> %r' % ((b['nseq'], b['nadd']), (r.nseq, r.nadd)))
        if inc2.simulator != inc.simulator: problems.append('flavour %s -> %s' % (inc.simulator, inc2.simulator))
        if d['timing'] and not sh['reset']:
            t = inc2.timing
            if t is None: problems.append('timing lost')
            else:
                for k in ('kcyc', 'iter', 'nm'):
                    if t[k] != d['timing'][k]: problems.append('timing %s' % k)
                for k in ('tstart', 'sumtim'):
                    if t[k] != float('%15.9e' % num(d['timing'][k])): problems.append('timing %s' % k)
        elif inc2.timing is not None: problems.append('timing appeared')
        inc2.write(f2, sh['reset'])
        a, b = open(f1).read(), open(f2).read()
        if a != b:
            la, lb = a.split('\n'), b.split('\n')
            diff = [(i, x, y) for i, (x, y) in enumerate(zip(la, lb)) if x != y][:2]
            problems.append('second write differs from the first: %r' % (diff or (len(la), len(lb)),))
    except Exception as ex:
        problems.append('exception %s: %s' % (type(ex).__name__, ex))
    finally:
        for f in (f1, f2):
            if os.path.exists(f): os.remove(f)
        os.rmdir(tmp)
    if problems: return True, '; '.join(problems)
    return False, 'round trip ok'
