"""Replay for C19 on the REAL modules (no z3): rebuild both geometries from the
counterexample's numbers with the real mulgrid.rectangular, run the real
block_mapping / t2incon.transfer_from / t2data.transfer_from and evaluate the
property with an independent concrete oracle (exact rationals of the floats
actually passed)."""
import os
import sys
from fractions import Fraction as F

sys.path.insert(0, os.path.dirname(os.path.abspath(__file__)))
from c19_common import own_block_name, DEFAULT_ATM, TOPCAT, BOTCAT, generator_plan


def num(x):
    if isinstance(x, dict) and 'frac' in x:
        return float(F(int(x['frac'][0]), int(x['frac'][1])))
    return float(x)


class Info(object):
    pass


def build(mg, d):
    nx, ny, nz = d['shape']
    dx, dy, dz = [num(v) for v in d['dx']], [num(v) for v in d['dy']], [num(v) for v in d['dz']]
    org = [num(v) for v in d['origin']]
    kw = dict(chars=d['chars']) if d.get('chars') else {}
    geo = mg.mulgrid().rectangular(dx, dy, dz, convention=d['conv'], atmos_type=d['atm'], origin=org, **kw)
    surf = [num(v) for v in d['surf']]
    for col, s in zip(geo.columnlist, surf):
        col.surface = s
        geo.set_column_num_layers(col)
    geo.setup_block_name_index(); geo.setup_block_connection_name_index()
    g = Info()
    g.atm, g.conv, g.ncol, g.nlay = d['atm'], d['conv'], nx * ny, nz
    fx, fy, fz = [F(v) for v in dx], [F(v) for v in dy], [F(v) for v in dz]
    ox, oy, oz = [F(v) for v in org]
    def mids(o, dd):
        out, acc = [], o
        for v in dd: out.append(acc + v / 2); acc += v
        return out
    mx, my = mids(ox, fx), mids(oy, fy)
    g.cx = [mx[k % nx] for k in range(g.ncol)]; g.cy = [my[k // nx] for k in range(g.ncol)]
    g.lbot, g.lcen = [oz], [oz]
    acc = oz
    for v in fz:
        acc -= v; g.lbot.append(acc); g.lcen.append(acc + v / 2)
    g.surf = [F(v) for v in surf]
    g.colname = [c.name for c in geo.columnlist]; g.layname = [l.name for l in geo.layerlist]
    g.under = {own_block_name(g.conv, g.layname[li], g.colname[k]): (li, k) for li in range(1, nz + 1) for k in range(g.ncol)}
    g.atmblocks = {}
    if g.atm == 0: g.atmblocks[own_block_name(g.conv, g.layname[0], ['ATM', ' 0', '  0', 'ATM'][g.conv])] = None
    elif g.atm == 1:
        for k in range(g.ncol): g.atmblocks[own_block_name(g.conv, g.layname[0], g.colname[k])] = k
    return geo, g


def d2(s, j, t, k): return (s.cx[j] - t.cx[k]) ** 2 + (s.cy[j] - t.cy[k]) ** 2
def nearest_col(s, j, t, k): return all(d2(s, j, t, k) <= d2(s, jj, t, k) for jj in range(s.ncol))
def nearest_lay(s, l, t, li): return all(abs(s.lcen[l] - t.lcen[li]) <= abs(s.lcen[ll] - t.lcen[li]) for ll in range(1, s.nlay + 1))
def first_below(s, l, k): return s.lbot[l] < s.surf[k] and (l == 1 or s.lbot[l - 1] >= s.surf[k])


def mapping_problems(s, t, tgeo, mapping):
    bad = []
    for nm in tgeo.block_name_list:
        if nm in t.atmblocks:
            if s.atm == 0:
                want = list(s.atmblocks)[0]
                if mapping.get(nm) != want: bad.append('atmosphere block %r -> %r, expected %r' % (nm, mapping.get(nm), want))
            elif s.atm == 1 and t.atm == 1:
                got = mapping.get(nm)
                if got not in s.atmblocks or not nearest_col(s, s.atmblocks[got], t, t.atmblocks[nm]):
                    bad.append('atmosphere block %r -> %r, not over the nearest source column' % (nm, got))
            continue
        li, k = t.under[nm]
        got = mapping.get(nm)
        if got is None: bad.append('underground block %r has no image' % nm); continue
        if got not in s.under: bad.append('%r -> %r is not a source block name' % (nm, got)); continue
        sl, sc = s.under[got]
        if not s.surf[sc] > s.lbot[sl]: bad.append('%r -> %r which does not exist in the source' % (nm, got)); continue
        if not nearest_col(s, sc, t, k): bad.append('%r -> %r: column is not the nearest' % (nm, got)); continue
        ok = False
        for l in range(1, s.nlay + 1):
            if nearest_lay(s, l, t, li):
                if (l == sl and s.surf[sc] > s.lbot[l]) or (s.surf[sc] <= s.lbot[l] and first_below(s, sl, sc)): ok = True
        if not ok: bad.append('%r -> %r: layer is neither the nearest nor the first below ground' % (nm, got))
    return bad


def replay(d):
    import numpy as np
    # The check claims the module's own fallback branch of column_mapping (the one used when
    # SciPy is not installed), so the replay runs the real module with scipy.spatial absent too.
    # (failures found in the scipy branch against the k-d tree contract are replayed with the real scipy)
    if not d.get('kdtree'): sys.modules['scipy.spatial'] = None
    import mulgrids as mg
    fn = d.get('fn')
    sgeo, s = build(mg, d['s'])
    if fn == 'self':
        try: m = sgeo.block_mapping(sgeo)
        except Exception as ex: return True, 'self block_mapping raised %s: %s' % (type(ex).__name__, ex)
        bad = [(b, m.get(b)) for b in sgeo.block_name_list if m.get(b) != b]
        return bool(bad), 'self-mapping: %s' % (bad[:5] if bad else 'identity')
    tgeo, t = build(mg, d['t'])
    if fn == 'map':
        try: m = sgeo.block_mapping(tgeo)
        except Exception as ex:
            return True, 'block_mapping (source atmosphere type %d, target %d) raised %s: %s' % (s.atm, t.atm, type(ex).__name__, ex)
        bad = mapping_problems(s, t, tgeo, m)
        return bool(bad), 'block_mapping: ' + ('; '.join(bad[:4]) if bad else 'all obligations hold concretely')
    if fn == 'refine':
        import copy
        import t2incons as ti
        factor, layers, nvar = int(d['factor']), [int(v) for v in d['layers']], int(d.get('nvar', 2))
        # s = the geometry before refinement, t = the untouched copy; oracle of the refined one: chosen layers cut in equal parts
        try:
            if len(layers) == s.nlay: sgeo.refine_layers(factor=factor)
            else: sgeo.refine_layers([sgeo.layerlist[li].name for li in layers], factor=factor)
        except Exception as ex: return True, 'refine_layers raised %s: %s' % (type(ex).__name__, ex)
        r = copy.copy(s)
        fz = []
        for li, v in enumerate([F(num(v)) for v in d['s']['dz']], 1): fz += [v / factor] * factor if li in layers else [v]
        r.nlay = len(fz)
        oz = F(num(d['s']['origin'][2]))
        r.lbot, r.lcen = [oz], [oz]
        acc = oz
        for v in fz:
            acc -= v; r.lbot.append(acc); r.lcen.append(acc + v / 2)
        r.layname = [l.name for l in sgeo.layerlist]
        if len(r.layname) != r.nlay + 1: return True, 'refine_layers built %d layers, expected %d' % (len(r.layname) - 1, r.nlay)
        r.under = {own_block_name(r.conv, r.layname[li], r.colname[k]): (li, k) for li in range(1, r.nlay + 1) for k in range(r.ncol)}
        r.atmblocks = {}
        if r.atm == 0: r.atmblocks[own_block_name(r.conv, r.layname[0], ['ATM', ' 0', '  0', 'ATM'][r.conv])] = None
        elif r.atm == 1:
            for k in range(r.ncol): r.atmblocks[own_block_name(r.conv, r.layname[0], r.colname[k])] = k
        bad = []
        want = list(r.atmblocks) + [nm for nm, (li, k) in r.under.items() if r.surf[k] > r.lbot[li]]
        if sorted(want) != sorted(sgeo.block_name_list): bad.append('block list of the refined geometry: %r, expected %r' % (sgeo.block_name_list[:8], want[:8]))
        try:
            m1 = sgeo.block_mapping(tgeo)
            bad += ['refined -> original: ' + b for b in mapping_problems(r, t, tgeo, m1)]
            m2 = tgeo.block_mapping(sgeo)
            bad += ['original -> refined: ' + b for b in mapping_problems(t, r, sgeo, m2)]
            m3 = sgeo.block_mapping(sgeo)
            bad += ['refined onto itself: %r -> %r' % (b, m3.get(b)) for b in sgeo.block_name_list if m3.get(b) != b]
            src = ti.t2incon()
            for bi, nm in enumerate(sgeo.block_name_list): src[nm] = ti.t2blockincon([1.e5 + bi] + [float(j) for j in range(1, nvar)], nm)
            inc = ti.t2incon()
            inc.transfer_from(src, sgeo, tgeo)
            for nm in tgeo.block_name_list:
                if nm in t.atmblocks: continue
                if m1.get(nm) not in src._block or list(inc[nm].variable) != list(src[m1[nm]].variable):
                    bad.append('incon refined -> original: block %r does not have the state of %r' % (nm, m1.get(nm)))
        except Exception as ex:
            return True, 'after refine_layers(%r, factor = %d): raised %s: %s' % (layers, factor, type(ex).__name__, ex)
        return bool(bad), 'refine_layers(%r, factor = %d): ' % (layers, factor) + ('; '.join(bad[:4]) if bad else 'all obligations hold concretely')
    if fn == 'move':
        import copy
        try:
            m1 = sgeo.block_mapping(tgeo)
            bad = ['before the move: ' + b for b in mapping_problems(s, t, tgeo, m1)]
            shift = [num(v) for v in d['shift']]
            sgeo.translate(shift)
            s2 = copy.copy(s)
            fs = [F(v) for v in shift]
            s2.cx = [v + fs[0] for v in s.cx]; s2.cy = [v + fs[1] for v in s.cy]
            s2.lbot = [v + fs[2] for v in s.lbot]; s2.lcen = [v + fs[2] for v in s.lcen]; s2.surf = [v + fs[2] for v in s.surf]
            m2 = sgeo.block_mapping(tgeo)
        except Exception as ex:
            return True, 'map / translate / map raised %s: %s' % (type(ex).__name__, ex)
        bad += ['after translate(%r): ' % (shift,) + b for b in mapping_problems(s2, t, tgeo, m2)]
        return bool(bad), 'block_mapping (%s branch): ' % ('scipy k-d tree' if d.get('kdtree') else 'fallback') + \
            ('; '.join(bad[:4]) if bad else 'all obligations hold concretely before and after the move')
    if fn == 'incon':
        import t2incons as ti
        nvar = d['nvar']
        state = {nm: [num(v) for v in vs] for nm, vs in d['state'].items()}
        src = ti.t2incon()
        stored = list(enumerate(sgeo.block_name_list))
        if d.get('order') == 'reversed': stored.reverse()
        elif d.get('order') == 'rotated': stored = stored[1:] + stored[:1]
        for bi, nm in stored:
            src[nm] = ti.t2blockincon(list(state.get(nm, [float(bi + j) for j in range(nvar)])), nm, porosity=0.1 + 0.01 * bi)
        before = [(b.block, list(b.variable), b.porosity) for b in src._blocklist]
        inc = ti.t2incon()
        try:
            inc.transfer_from(src, sgeo, tgeo)
            m, cm = sgeo.block_mapping(tgeo, True)
        except Exception as ex:
            return True, 't2incon.transfer_from (source atmosphere type %d, target %d) raised %s: %s' % (s.atm, t.atm, type(ex).__name__, ex)
        bad = mapping_problems(s, t, tgeo, m)
        if inc.blocklist != list(tgeo.block_name_list): bad.append('result blocks differ from the target block list')
        else:
            for nm in tgeo.block_name_list:
                got = [float(v) for v in inc[nm].variable]
                if nm in t.atmblocks:
                    if s.atm == 2: want = [float(v) for v in DEFAULT_ATM]
                    elif s.atm == 0: want = list(src[list(s.atmblocks)[0]].variable)     # the state of the source's atmosphere BLOCK
                    elif t.atm == 0:
                        keys = list(s.atmblocks)
                        want = [sum(src[a].variable[j] for a in keys) / len(keys) for j in range(nvar)]
                    else: want = list(src[own_block_name(s.conv, s.layname[0], cm[t.colname[t.atmblocks[nm]]])].variable)
                else:
                    want = list(src[m[nm]].variable) if m.get(nm) in src._block else None
                if want is None or len(got) != len(want) or any(abs(a - b) > 1e-9 * max(1.0, abs(b)) for a, b in zip(got, want)):
                    bad.append('block %r has state %r, expected %r' % (nm, got, want))
                if nm not in t.atmblocks and m.get(nm) in src._block:
                    wp = src[m[nm]].porosity
                    if inc[nm].porosity is None or abs(inc[nm].porosity - wp) > 1e-12:
                        bad.append('block %r has porosity %r, the mapped source block %r has %r' % (nm, inc[nm].porosity, m[nm], wp))
        after = [(b.block, list(b.variable), b.porosity) for b in src._blocklist]
        if before != after: bad.append('source initial conditions were altered')
        return bool(bad), 't2incon.transfer_from: ' + ('; '.join(bad[:4]) if bad else 'all obligations hold concretely')
    if fn == 'data':
        import t2data as td, t2grids as tg
        conv = s.conv
        vals = {k: num(v) for k, v in d.get('values', {}).items()}
        dat = td.t2data(); dat.grid = tg.t2grid().fromgeo(sgeo)
        gens, follow = [], []
        for gi, nm, blk, typ, ntab, enth, follows, where, ren in generator_plan(conv, d['layout'], s.colname, s.layname):
            follows = ren if (where != 'interior' or d.get('rename')) else nm      # the name the generator must have afterwards
            kw = dict(name=nm, block=blk, type=typ)
            if ntab:
                kw.update(ltab=ntab, time=[vals.get('g%d_t%d' % (gi, j), float(j)) for j in range(ntab)],
                          rate=[vals.get('g%d_r%d' % (gi, j), 1.0 + j) for j in range(ntab)])
                if enth: kw.update(itab='E', enthalpy=[vals.get('g%d_h%d' % (gi, j), 1e5) for j in range(ntab)])
            else: kw.update(gx=vals.get('g%d_gx' % gi, 1.5 + gi), ex=vals.get('g%d_ex' % gi, 1e5))
            g = td.t2generator(**kw); dat.add_generator(g); gens.append(g); follow.append(follows)
        snap = [(g.name, g.block, g.type, g.ltab, g.itab, g.gx, g.ex, list(g.time), list(g.rate), list(g.enthalpy)) for g in gens]
        out = td.t2data()
        try:
            out.transfer_from(dat, sgeo, tgeo, top_generator=[TOPCAT[conv]], bottom_generator=[BOTCAT[conv]],
                              rename_generators=bool(d.get('rename')), preserve_generation_totals=bool(d.get('preserve')))
        except Exception as ex:
            return True, 't2data.transfer_from raised %s: %s' % (type(ex).__name__, ex)
        bad = []
        res = [(g.name, g.block, g.type, g.ltab, g.itab, g.gx, g.ex, list(g.time), list(g.rate), list(g.enthalpy)) for g in out.generatorlist]
        if len(res) != len(snap): bad.append('%d generators became %d' % (len(snap), len(res)))
        def close(a, b):
            if isinstance(a, list): return len(a) == len(b) and all(close(x, y) for x, y in zip(a, b))
            if isinstance(a, float) and isinstance(b, float): return abs(a - b) <= 1e-9 * max(1.0, abs(a))
            return a == b
        for sn, expname in zip(snap, follow):
            cand = [r for r in res if r[1] == sn[1] and r[0] == expname]
            if len(cand) != 1: bad.append('generator %r at %r not found under the name %r: result has %r' % (sn[0], sn[1], expname, [(r[1], r[0]) for r in res]))
            elif not all(close(a, b) for a, b in zip(cand[0][1:], sn[1:])): bad.append('generator %r changed: %r -> %r' % (sn[0], sn, cand[0]))
        if not close(float(sum(r[5] or 0.0 for r in res if not r[3])), float(sum(r[5] or 0.0 for r in snap if not r[3]))):
            bad.append('total generation changed')
        now = [(g.name, g.block, g.type, g.ltab, g.itab, g.gx, g.ex, list(g.time), list(g.rate), list(g.enthalpy)) for g in gens]
        if now != snap: bad.append('source generators were altered')
        return bool(bad), 't2data.transfer_from: ' + ('; '.join(bad[:4]) if bad else 'all obligations hold concretely')
    return False, 'unknown replay kind %r' % fn
