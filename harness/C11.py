"""C11 - refining / bisecting / splitting / triangulating / decomposing columns
and refining layers conserves area and volume and tiles the domain.

The REAL mulgrids code (reloaded from /repo) builds a mesh family with
symbolic coordinates, layer thicknesses and surfaces, then runs the real
refine / split_column / triangulate_column / decompose_columns /
refine_layers on it.  z3 decides, for every value of the symbols:

  total-area      mulgrid.area after == before            (polynomial identity)
  total-volume    sum of block_volume over the block list after == before
  stored-area     every column's stored .area == shoelace area of its nodes, > 0
  convex          (lemma for the half-plane oracle) every column is convex, ccw
  disjoint        no point p lies strictly inside two columns
  cover           p strictly inside old column k => p in the CLOSURE of some
                  column (with `convex`: p off every edge => strictly inside one)
  cover-area      (nonlinear families Q1/Q4 instead of `cover`) the columns the
                  solver shows to lie inside old k have exactly k's area
  inside-old      p inside old k and inside current column j => j's vertices lie
                  in (closed) old k and j has k's surface
  conformity      no node lies in the open interior of any column edge
  connections     (evaluated on the path, names are concrete) two columns share
                  an edge <=> a connection joins them, and it carries that edge
  saved-names     (evaluated on the path, names are concrete) the node / column
                  names of the edited geometry stay distinct for the geometry file
                  reader, so the saved mesh is the same tiling (replay: real write + read)
  layers-*        refine_layers: new layers tile the old ones (symbolic z),
                  per-column volume and num_layers are what the surface implies
"""
import itertools
import os
import time
import z3
from fractions import Fraction
from vx import sym, loader, report
from vx.sym import SReal, SInt, SBool
from harness import c11_common as CC

PID = 'C11'

# ---------------------------------------------------------------------------
# loading; deterministic set order for id-hashed repo objects

_LD = None
_HC = [itertools.count(1)]
_HMUL = [1]

def _det_hash(self):
    d = self.__dict__
    h = d.get('_vx_h')
    if h is None:
        h = d['_vx_h'] = (next(_HC[0]) * _HMUL[0]) % 1000003
    return h

def _load():
    """Reload mulgrids from the repo.  node/column/connection/layer objects hash
    by id() in CPython, so the iteration order of the sets that refine() walks
    changes from one re-execution to the next; the path explorer needs
    re-executions to be deterministic, so the hash is replaced by a first-use
    counter (identity equality is untouched).  Recorded as an assumption."""
    global _LD
    if _LD is None:
        _LD = loader.load(['mulgrids'])
        M = _LD.mulgrids
        for cls in (M.node, M.column, M.connection, M.layer, M.well):
            cls.__hash__ = _det_hash
        _HMUL[0] = [1, 7919, 104729, 15485863][int(os.environ.get('VERIF_SEED', '0') or 0) % 4]
    return _LD

def reset_hash():
    _HC[0] = itertools.count(1)
    _PURE.clear()


# ---------------------------------------------------------------------------
# independent oracles (z3 terms)

def E(x): return sym.lift_real(x)

def ratfun(t):
    """z3 real term -> (numerator, denominator) without division, or None."""
    if z3.is_rational_value(t) or z3.is_int_value(t) or (z3.is_const(t) and t.decl().kind() == z3.Z3_OP_UNINTERPRETED):
        return t, None
    if not z3.is_app(t): return None
    k = t.decl().kind()
    ch = [ratfun(x) for x in t.children()]
    if any(x is None for x in ch): return None
    def mul(a, b): return a if b is None else (b if a is None else a * b)
    if k in (z3.Z3_OP_ADD, z3.Z3_OP_SUB):
        n, d = ch[0]
        for (n2, d2) in ch[1:]:
            if d is None and d2 is None: n = n + n2 if k == z3.Z3_OP_ADD else n - n2
            else:
                n = mul(n, d2) + mul(n2, d) if k == z3.Z3_OP_ADD else mul(n, d2) - mul(n2, d)
                d = mul(d, d2)
        return n, d
    if k == z3.Z3_OP_UMINUS: return -ch[0][0], ch[0][1]
    if k == z3.Z3_OP_MUL:
        n, d = ch[0]
        for (n2, d2) in ch[1:]: n, d = n * n2, mul(d, d2)
        return n, d
    if k == z3.Z3_OP_DIV:
        (n1, d1), (n2, d2) = ch
        return mul(n1, d2), mul(d1, n2)
    if k == z3.Z3_OP_TO_REAL: return t, None
    return None

_PURE = {}

def pure(c, t):
    """A coordinate that is a genuine rational function of the symbols (the
    centroid of a symbolic polygon) is rewritten as ONE quotient of two
    polynomials in sum-of-monomials form; same value, much cheaper for nlsat
    than the nested form the code computes."""
    t = z3.simplify(t)
    rf = ratfun(t)
    if rf is None or rf[1] is None: return t
    num, den = rf
    if sym.numeral_value(den) is not None: return t
    return z3.simplify(num, som=True) / z3.simplify(den, som=True)

def P(nd):
    c = sym.ctx()
    return (pure(c, E(nd.pos[0])), pure(c, E(nd.pos[1])))

def cross(a, b, p):
    return (b[0] - a[0]) * (p[1] - a[1]) - (b[1] - a[1]) * (p[0] - a[0])

def shoelace(poly):
    n = len(poly)
    s = z3.RealVal(0)
    for i in range(n):
        a, b = poly[i], poly[(i + 1) % n]
        s = s + (a[0] * b[1] - b[0] * a[1])
    return s / 2

def inside(p, poly):
    """p strictly inside a convex counter-clockwise polygon (open half-planes)."""
    n = len(poly)
    return z3.And(*[cross(poly[i], poly[(i + 1) % n], p) > 0 for i in range(n)])

def inside_closed(p, poly):
    n = len(poly)
    return z3.And(*[cross(poly[i], poly[(i + 1) % n], p) >= 0 for i in range(n)])

def weakly_convex(poly):
    n = len(poly)
    return z3.And(*[cross(poly[i], poly[(i + 1) % n], poly[(i + 2) % n]) >= 0 for i in range(n)])

def on_segment(p, a, b):
    d = (p[0] - a[0]) * (b[0] - a[0]) + (p[1] - a[1]) * (b[1] - a[1])
    l2 = (b[0] - a[0]) * (b[0] - a[0]) + (b[1] - a[1]) * (b[1] - a[1])
    return z3.And(cross(a, b, p) == 0, d >= 0, d <= l2)

def strictly_between(m, a, b):
    d = (m[0] - a[0]) * (b[0] - a[0]) + (m[1] - a[1]) * (b[1] - a[1])
    l2 = (b[0] - a[0]) * (b[0] - a[0]) + (b[1] - a[1]) * (b[1] - a[1])
    return z3.And(cross(a, b, m) == 0, d > 0, d < l2)


# ---------------------------------------------------------------------------
# symbolic environment for the family builders

class SymEnv(object):
    def __init__(self, c):
        self.c = c
        self.syms = {}      # name -> z3 term (creation order)
        self.shadow = {}    # name -> Fraction (a fixed generic member of the family)

    def _new(self, name):
        v = z3.Real(name)
        self.syms[name] = v
        return v

    def pos(self, name):
        v = self._new(name); self.c.add(v > 0); self.shadow[name] = Fraction(1)
        return SReal(v)

    def free(self, name):
        v = self._new(name); self.shadow[name] = Fraction(0)
        return SReal(v)

    def between(self, name, lo, hi):
        v = self._new(name)
        slo = shi = None
        if lo is not None:
            self.c.add(v > E(lo)); slo = self.shadow_value(E(lo))
        if hi is not None:
            self.c.add(v < E(hi)); shi = self.shadow_value(E(hi))
        if slo is None: s = shi - 1
        elif shi is None: s = slo + 1
        else: s = (slo + shi) / 2
        self.shadow[name] = s
        return SReal(v)

    def diamond(self, a, b):
        va, vb = self._new(a), self._new(b)
        self.c.add(z3.And(va + vb > 1, va + vb < 3, va - vb < 1, vb - va < 1))
        self.shadow[a] = Fraction(9, 8); self.shadow[b] = Fraction(15, 16)
        return SReal(va), SReal(vb)

    def quadfam(self, a, b):
        va, vb = self._new(a), self._new(b)
        self.c.add(z3.And(va > 0, vb > 0, va + vb > 1))
        self.shadow[a] = Fraction(5, 4); self.shadow[b] = Fraction(7, 8)
        return SReal(va), SReal(vb)

    def shadow_value(self, term):
        subs = [(self.syms[n], z3.RealVal(self.shadow[n])) for n in self.syms if n in self.shadow]
        v = sym.numeral_value(z3.substitute(term, *subs)) if subs else sym.numeral_value(term)
        if v is None: raise sym.Unsupported('shadow value of %s' % term)
        return Fraction(v)

    def witness(self, m):
        return {n: sym.model_value(m, t) for n, t in self.syms.items()}


def canonical_columns(geo, env):
    """Columns sorted by the position of their vertex mean in the family's
    fixed shadow member (row-major: y then x) - independent of names and of
    set iteration order."""
    keyed = []
    for col in geo.columnlist:
        xs = [env.shadow_value(E(n.pos[0])) for n in col.node]
        ys = [env.shadow_value(E(n.pos[1])) for n in col.node]
        keyed.append((sum(ys) / len(ys), sum(xs) / len(xs), len(xs), col))
    keyed.sort(key=lambda t: t[:3])
    return [t[3] for t in keyed]


# ---------------------------------------------------------------------------
# state capture

def col_state(col):
    return dict(name=col.name, nodes=[n.name for n in col.node], poly=[P(n) for n in col.node],
                surf=None if col.surface is None else E(col.surface), nl=col.num_layers,
                area=E(col.area), obj=col)

def geo_state(geo):
    return [col_state(col) for col in geo.columnlist]

def real_volume(c, geo):
    """Sum of the REAL block_volume over the underground blocks the REAL name
    index lists."""
    tot = z3.RealVal(0)
    n = 0
    for lay in geo.layerlist[1:]:
        for col in geo.columnlist:
            nm = geo.block_name(lay.name, col.name)
            if nm in geo.block_name_index:
                v = geo.block_volume(lay, col)
                if v is None:
                    c.prove(False, 'listed block %s has a volume' % nm)
                    continue
                tot = tot + E(v); n += 1
    return tot, n

def column_heights(geo, st):
    """Independent rock height under a column: max(0, surface - bottom of the
    lowest layer) (a surface above the top layer extends the top block)."""
    zn = E(geo.layerlist[-1].bottom)
    h = st['surf'] - zn
    return z3.If(h > 0, h, 0)

def same_term(a, b):
    return z3.is_true(z3.simplify(a == b))


# ---------------------------------------------------------------------------
# the obligations

COVER_MODE = {'RECT': 'point', 'HANG': 'point', 'CONC': 'point', 'Q1': 'point', 'Q4': 'point'}

class Obl(object):
    """Collects obligations of one path, records failures with replay data."""
    def __init__(self, c, env, fam, tag, failures, distinct, samples, opkey):
        self.c, self.env, self.fam, self.tag = c, env, fam, tag
        self.failures, self.distinct, self.samples = failures, distinct, samples
        self.opkey = opkey
        self.steps_replay = []     # filled by the task: functions model -> step dict
        self.count = 0
        self.timing = {}

    def eq(self, a, b):
        """a == b; for the concrete-polygon family the repo code computes areas
        and centroids in rounded float arithmetic, so equality is within 1e-9 (relative to |b| + 1)."""
        if self.fam['kind'] == 'CONC':
            tol = z3.RealVal(Fraction(1, 10 ** 9)) * (z3.If(b >= 0, b, -b) + 1)
            return z3.And(a - b <= tol, b - a <= tol)
        return a == b

    def prove(self, formula, kind, what, extra=None, timeout_ms=None, optional=False):
        """optional: an `unknown` within timeout_ms is handed back to the caller
        (who then decides the clause another way) instead of being recorded."""
        f = formula.e if isinstance(formula, SBool) else formula
        if not isinstance(f, bool):
            self.distinct.add((kind, z3.simplify(f).hash()))
        self.count += 1
        t0 = time.time()
        saved = self.c.timeout_ms
        if timeout_ms: self.c.timeout_ms = timeout_ms
        try:
            r = self.c.prove(f, '%s: %s' % (kind, what))
        finally:
            self.c.timeout_ms = saved
        if optional and r == 'unknown':
            self.c.unknowns.pop()
            self.c.stats['ob_unknown'] -= 1; self.c.stats['obligations'] -= 1
            self.count -= 1
            return r
        dt = time.time() - t0
        k = self.timing.setdefault(kind, [0, 0.0, 0.0])
        k[0] += 1; k[1] += dt; k[2] = max(k[2], dt)
        if dt > 2 and os.environ.get('C11_SLOW'): print('   slow %.1fs %s: %s %s' % (dt, kind, what, r))
        if r == 'sat':
            m = self.c.failures[-1]['model']
            data = dict(family=self.fam, values=self.env.witness(m), steps=[fn(m) for fn in self.steps_replay],
                        ob=kind, what=what)
            if extra: data.update({k: (v(m) if callable(v) else v) for k, v in extra.items()})
            self.failures.append(dict(key='%s/%s' % (self.opkey, kind),
                                      what='%s on %s: %s' % (kind, self.tag, what), replay=data))
        return r


def pt_value(p):
    return lambda m: [sym.model_value(m, p[0]), sym.model_value(m, p[1])]

def poly_value(poly):
    return lambda m: [[sym.model_value(m, x), sym.model_value(m, y)] for x, y in poly]


def check_plan(ob, geo, before, vol_before, promises_connections, check_volume=True):
    """All plan-view obligations after an edit; `before` is geo_state() taken
    before it.  The real-code reads happen first; the repo-function profiler of
    the first path is switched off for the z3-heavy remainder (3x faster)."""
    import sys as _sys
    c = ob.c
    after = geo_state(geo)
    area_after = E(geo.area)
    if check_volume: v1, nblk = real_volume(c, geo)
    prof = _sys.getprofile()
    _sys.setprofile(None)
    try:
        return _check_plan(ob, geo, before, vol_before, promises_connections, check_volume, after, area_after,
                           v1 if check_volume else None, nblk if check_volume else 0)
    finally:
        _sys.setprofile(prof)


def _check_plan(ob, geo, before, vol_before, promises_connections, check_volume, after, area_after, v1, nblk):
    c = ob.c
    px, py = z3.Real('px'), z3.Real('py')
    p = (px, py)
    # --- totals (real attributes) -------------------------------------------
    a0 = z3.Sum(*[s['area'] for s in before]) if before else z3.RealVal(0)
    ob.prove(ob.eq(area_after, a0), 'total-area', 'mulgrid.area equals the sum of the stored areas before')
    a0g = z3.Sum(*[shoelace(s['poly']) for s in before])
    ob.prove(ob.eq(z3.Sum(*[shoelace(s['poly']) for s in after]), a0g), 'polygon-area',
             'sum of shoelace areas of the column polygons is unchanged')
    if check_volume:
        ob.prove(ob.eq(v1, vol_before), 'total-volume', 'sum of block_volume over the listed underground blocks (%d blocks)' % nblk)
        vor = z3.Sum(*[shoelace(s['poly']) * column_heights(geo, s) for s in after if s['surf'] is not None])
        ob.prove(ob.eq(v1, vor), 'volume-oracle', 'real block volumes sum to sum(area x rock height under the surface)')
    # --- per column -----------------------------------------------------------
    for s in after:
        ob.prove(z3.And(ob.eq(s['area'], shoelace(s['poly'])), s['area'] > 0), 'stored-area',
                 'column area attribute equals the shoelace area of its nodes and is positive',
                 extra=dict(col=poly_value(s['poly'])))
        ob.prove(weakly_convex(s['poly']), 'convex', 'column is convex and counter-clockwise (oracle lemma)',
                 extra=dict(col=poly_value(s['poly'])))
    # --- tiling ---------------------------------------------------------------
    ins = [inside(p, s['poly']) for s in after]
    insc = [inside_closed(p, s['poly']) for s in after]
    for i in range(len(after) - 1):
        ob.prove(z3.Not(z3.And(ins[i], z3.Or(*ins[i + 1:]))), 'disjoint',
                 'no point strictly inside column %s and another column' % '-'.join(after[i]['nodes']),
                 extra=dict(p=pt_value(p), col=poly_value(after[i]['poly'])))
    edges = {}
    for s in after:
        n = len(s['nodes'])
        for i in range(n):
            k = frozenset((s['nodes'][i], s['nodes'][(i + 1) % n]))
            if len(k) == 2: edges.setdefault(k, (s['poly'][i], s['poly'][(i + 1) % n]))
    cur = {id(s['obj']): s for s in after}
    unchanged = 0
    for k, s0 in enumerate(before):
        s1 = cur.get(id(s0['obj']))
        if s1 is not None and s1['nodes'] == s0['nodes'] and all(same_term(a[0], b[0]) and same_term(a[1], b[1]) for a, b in zip(s0['poly'], s1['poly'])):
            # same object, same nodes, same coordinates: cover is immediate and
            # inside-old follows from `disjoint`; only inheritance is left
            unchanged += 1
            ob.prove(s1['surf'] == s0['surf'] if s0['surf'] is not None else s1['surf'] is None,
                     'inside-old', 'untouched column keeps its surface')
            continue
        ink = inside(p, s0['poly'])
        mode = ob.fam.get('cover', 'point')
        if mode == 'point':
            f = z3.Implies(ink, z3.Or(*insc))
            r = ob.prove(f, 'cover', 'a point strictly inside old column %d is in the closure of some column' % k,
                         extra=dict(p=pt_value(p), old=poly_value(s0['poly'])), timeout_ms=10000, optional=True)
            if r == 'unknown': mode = 'area'
        if mode == 'area':
            # z3 does not decide the pointwise cover in useful time when a node is
            # a genuine rational function of the symbols (centroid of a symbolic
            # polygon); it decides instead (i) which columns lie inside old k and
            # (ii) that their areas add up to k's area; with `disjoint` this gives
            # the closed cover (measure argument, see notes)
            J = []
            for j, s1 in enumerate(after):
                r, _m = c.solve(z3.Not(z3.And(*[inside_closed(v, s0['poly']) for v in s1['poly']])))
                if r == 'unsat': J.append(j)
                elif r != 'sat': c.unknowns.append(dict(label='cover-area: classification of column %d' % j, info=None))
            ob.prove(ob.eq(z3.Sum(*[shoelace(after[j]['poly']) for j in J]), shoelace(s0['poly'])) if J else z3.BoolVal(False), 'cover-area',
                     'the %d columns lying inside old column %d have its total area' % (len(J), k),
                     extra=dict(old=poly_value(s0['poly'])))
        goals = []
        for j, s1 in enumerate(after):
            goal = [inside_closed(v, s0['poly']) for v in s1['poly']]
            if s0['surf'] is not None:
                goal.append(s1['surf'] == s0['surf'] if s1['surf'] is not None else z3.BoolVal(False))
            goals.append(z3.Implies(ins[j], z3.And(*goal)))
        ob.prove(z3.Implies(ink, z3.And(*goals)), 'inside-old',
                 'a column containing a point of old column %d lies inside it and has its surface' % k,
                 extra=dict(p=pt_value(p), old=poly_value(s0['poly'])))
    # --- conformity -------------------------------------------------------------
    nodes = [(nd.name, P(nd)) for nd in geo.nodelist]
    nonlinear = False
    for k, (a, b) in (edges.items() if ob.fam.get('conformity', True) else []):
        hang = [(nm, strictly_between(m, a, b)) for nm, m in nodes if nm not in k]
        if hang and nonlinear:
            for nm, f in hang:
                ob.prove(z3.Not(f), 'conformity', 'node %s is not in the open interior of edge %s' % (nm, '-'.join(sorted(k))),
                         extra=dict(edge=poly_value([a, b])))
        elif hang:
            for i0 in range(0, len(hang), 16):
                ob.prove(z3.Not(z3.Or(*[f for _nm, f in hang[i0:i0 + 16]])), 'conformity',
                         'no node in the open interior of edge %s%s' % ('-'.join(sorted(k)), '' if len(hang) <= 16 else ' (nodes %d..)' % i0),
                         extra=dict(edge=poly_value([a, b])))
    ob.prove(len(edges) > 0 and all(len(set(s['nodes'])) == len(s['nodes']) and len(s['nodes']) >= 3 for s in after),
             'conformity', 'every column has at least 3 distinct nodes')
    # --- connections (concrete incidence on this path) ----------------------------
    if promises_connections:
        bad = connection_defects(geo)
        ob.prove(not bad, 'connections', 'shared edge <=> connection (%s)' % '; '.join(bad[:3]))
    # --- the edited geometry as a geometry FILE (concrete names on this path) -----------
    bad = naming_defects(geo)
    ob.prove(not bad, 'saved-names', 'node / column names stay distinct when the geometry is written and read back, so the saved mesh is the same tiling (%s)' % '; '.join(bad[:3]))
    return dict(columns=len(after), unchanged=unchanged, edges=len(edges))


def naming_defects(geo):
    """Concrete: the geometry file reader keys nodes and columns by
    name.strip().rjust(colname_length) and ignores a second node / column of
    the same name; two names of the edited geometry that it cannot tell apart
    mean that the saved geometry loses columns (the replay writes and reads the
    real file and compares column count and area)."""
    bad = []
    L = geo.colname_length
    for kind, names in (('node', [n.name for n in geo.nodelist]), ('column', [cl.name for cl in geo.columnlist])):
        seen = {}
        for nm in names:
            k = nm.strip().rjust(L)
            if k in seen: bad.append('%s names %r and %r are one name in a geometry file' % (kind, seen[k], nm))
            seen[k] = nm
    return bad


def connection_defects(geo, with_dict=False):
    """Concrete: two columns share an edge (two nodes consecutive in both) iff
    a connection of the connection list joins them; the connection's nodes are
    that edge.  with_dict (C10) also compares the by-name dictionary."""
    bad = []
    def sides(col):
        n = len(col.node)
        return set(frozenset((col.node[i].name, col.node[(i + 1) % n].name)) for i in range(n))
    cols = geo.columnlist
    side = [sides(cl) for cl in cols]
    conn = {}
    for con in geo.connectionlist:
        key = frozenset(cl.name for cl in con.column)
        if key in conn: bad.append('duplicate connection %s' % sorted(key))
        conn[key] = con
    if with_dict:
        for names, con in geo.connection.items():
            if frozenset(names) not in conn or conn[frozenset(names)] is not con:
                bad.append('connection dict entry %s is not in the connection list' % (names,))
            if tuple(cl.name for cl in con.column) != tuple(names):
                bad.append('connection filed under %s joins %s' % (names, [cl.name for cl in con.column]))
        if len(geo.connection) != len(geo.connectionlist): bad.append('connection dict/list sizes differ')
    for i in range(len(cols)):
        for j in range(i + 1, len(cols)):
            shared = side[i] & side[j]
            key = frozenset((cols[i].name, cols[j].name))
            if shared and key not in conn: bad.append('missing connection %s' % sorted(key))
            if not shared and key in conn: bad.append('extra connection %s' % sorted(key))
            if shared and key in conn:
                cn = conn[key]
                if cn.node is None or frozenset(n.name for n in cn.node) not in shared:
                    bad.append('connection %s does not carry the shared edge' % sorted(key))
    for key, con in conn.items():
        if not all(cl in cols for cl in con.column): bad.append('connection %s to a column not in the geometry' % sorted(key))
    return bad


# ---------------------------------------------------------------------------
# tasks

def _resolve(step, order, geo):
    """harness-level step (canonical column indices) -> common step (names) and
    a function model -> replay step (witness coordinates)."""
    op = step['op']
    def pick(i):
        if i == 'centre': return max(order, key=lambda cl: cl.num_nodes)     # HANG: the many-sided column
        if isinstance(i, str) and i.startswith('quad'):                       # k-th quadrilateral in canonical order
            return [cl for cl in order if cl.num_nodes == 4][int(i[4:])]
        return order[i]
    def nm(i): return pick(i).name
    def ref(i):
        poly = [P(n) for n in pick(i).node]
        return poly_value(poly)
    if op == 'refine' and step['sel'] == 'all': step = dict(step, sel=list(range(len(order))))
    if op == 'refine' and step['sel'] == 'triangles': step = dict(step, sel=[i for i, cl in enumerate(order) if cl.num_nodes == 3])
    if op == 'refine':
        sel = step['sel']; edge = step.get('edge', [])
        cs = dict(op='refine', cols=[nm(i) for i in sel], bisect=step.get('bisect', False), edge=[nm(i) for i in edge])
        rs = [ref(i) for i in sel]; re_ = [ref(i) for i in edge]
        return cs, lambda m: dict(op='refine', cols=[r(m) for r in rs], bisect=step.get('bisect', False), edge=[r(m) for r in re_])
    if op == 'split':
        col = pick(step['col'])
        nd = col.node[step['node']]
        cs = dict(op='split', col=col.name, node=nd.name)
        r, pn = ref(step['col']), pt_value(P(nd))
        return cs, lambda m: dict(op='split', col=r(m), node=pn(m))
    if op in ('triangulate', 'decompose_one'):
        cs = dict(op=op, col=nm(step['col']))
        r = ref(step['col'])
        return cs, lambda m: dict(op=op, col=r(m))
    if op == 'decompose':
        sel = step['sel']
        if sel == 'all':
            return dict(op='decompose', cols=[]), lambda m: dict(op='decompose', cols=[])
        rs = [ref(i) for i in sel]
        return dict(op='decompose', cols=[nm(i) for i in sel]), lambda m: dict(op='decompose', cols=[r(m) for r in rs])
    if op == 'refine_layers':
        names = [geo.layerlist[i].name for i in step['layers']]
        return dict(op='refine_layers', layers=names, factor=step['factor']), \
            lambda m: dict(op='refine_layers', layers=list(step['layers']), factor=step['factor'])
    raise ValueError(op)


def op_key(steps):
    out = []
    for s in steps:
        k = s['op']
        if k == 'refine':
            k += '[bisect=%s%s]' % (s.get('bisect', False), ',edge' if s.get('edge') else '')
        out.append(k)
    return '+'.join(out)


def step_text(s):
    return ','.join('%s=%s' % (k, s[k]) for k in sorted(s))


def task_plan(fam, steps, name):
    """Build family `fam`, run `steps` (all but the last are set-up edits, the
    obligations compare the state before and after the LAST step)."""
    ld = _load()
    M = ld.mulgrids
    failures, samples, distinct = [], [], set()
    info = {}
    def h(c):
        reset_hash()
        env = SymEnv(c)
        geo = CC.build(M, fam, env)
        ob = Obl(c, env, fam, name, failures, distinct, samples, op_key(steps))
        before = vol0 = None
        for si, step in enumerate(steps):
            order = canonical_columns(geo, env)
            cs, rfn = _resolve(step, order, geo)
            ob.steps_replay.append(rfn)
            if si == len(steps) - 1:
                before = geo_state(geo)
                vol0, _ = real_volume(c, geo)
                r, _m = c.reachable()
                if r != 'sat': return 'unreachable:%s' % r
            try:
                ret = CC.apply_step(M, geo, cs)
            except ZeroDivisionError:
                # column() divides by the new column's area when it computes the
                # centroid: numpy would carry on with nan/inf, the engine raises
                ob.prove(False, 'degenerate', 'the edit creates a column of zero area (its centroid divides by the area)')
                return 'degenerate-column'
            except Exception as ex:
                # every shape of the catalogue is a valid request: the edit must not raise
                ob.prove(False, 'raises-%s' % type(ex).__name__, 'the edit raises %s: %s' % (type(ex).__name__, str(ex)[:100]),
                         extra=dict(exception=type(ex).__name__))
                return 'raised'
            if cs['op'] == 'split' and ret is not True: return 'split-refused'
            if cs['op'] in ('triangulate', 'subdivide', 'decompose_one'):
                # low-level calls leave the derived name lists to the caller
                # (decompose_columns does exactly this)
                geo.setup_block_name_index()
                geo.setup_block_connection_name_index()
        last = steps[-1]['op']
        st = check_plan(ob, geo, before, vol0, last in CC.PROMISES_CONNECTIONS)
        info.update(st)
        info['timing'] = {k: [v[0], round(v[1], 2), round(v[2], 2)] for k, v in ob.timing.items()}
        if not samples:
            samples.append(dict(task=name, family=fam, steps=[step_text(s) for s in steps], columns_after=st['columns'],
                                obligations=ob.count, example='total-area: %s' % str(z3.simplify(E(geo.area)))[:160]))
        return 'checked'
    res = sym.explore(h, sym.Ctx(timeout_ms=60000 if fam.get('centre') == 'centroid' else 40000), max_paths=400, wall_s=600)
    return report.summarize(name, res, failures, samples, extra=dict(distinct_obligations=len(distinct), info=info))


def task_layers(fam, layers, factor, name):
    """refine_layers on family `fam` with symbolic thicknesses and surfaces."""
    ld = _load()
    M = ld.mulgrids
    failures, samples, distinct = [], [], set()
    def h(c):
        reset_hash()
        env = SymEnv(c)
        geo = CC.build(M, fam, env)
        step = dict(op='refine_layers', layers=layers, factor=factor)
        ob = Obl(c, env, fam, name, failures, distinct, samples, 'refine_layers')
        cs, rfn = _resolve(step, None, geo)
        ob.steps_replay.append(rfn)
        old = [(E(l.bottom), E(l.top), l.name) for l in geo.layerlist]
        before = geo_state(geo)
        colvol0 = []
        for col in geo.columnlist:
            v = z3.RealVal(0)
            for lay in geo.layerlist[1:]:
                if geo.block_name(lay.name, col.name) in geo.block_name_index:
                    v = v + E(geo.block_volume(lay, col))
            colvol0.append(v)
        vol0, _ = real_volume(c, geo)
        r, _m = c.reachable()
        if r != 'sat': return 'unreachable:%s' % r
        CC.apply_step(M, geo, cs)
        new = [(E(l.bottom), E(l.top), l.name, E(l.centre)) for l in geo.layerlist]
        sel = set(layers) if layers else set(range(len(old)))
        expect = 1 + sum(factor if i in sel else 1 for i in range(1, len(old)))
        ob.prove(len(new) == expect, 'layers-count', '%d layers expected, %d found' % (expect, len(new)))
        ob.prove(z3.And(new[0][0] == old[0][0], new[0][1] == old[0][1],
                        z3.BoolVal(new[0][2] == old[0][2] or old[0][2] in [n[2] for n in new[1:]])),
                 'layers-atmosphere', 'atmosphere layer keeps its elevations, and its name unless that is one of the regenerated layer names')
        ob.prove(len(set(n[2] for n in new)) == len(new) and all(geo.layer[l.name] is l for l in geo.layerlist) and len(geo.layer) == len(new),
                 'layers-names', 'layer names unique and dict agrees with list')
        for i in range(1, len(new)):
            ob.prove(z3.And(new[i][1] == new[i - 1][0], new[i][0] < new[i][1], new[i][3] * 2 == new[i][0] + new[i][1]),
                     'layers-chain', 'layer %d: top = bottom of the layer above, positive thickness, centre in the middle' % i)
        z = z3.Real('pz')
        inl = [z3.And(n[0] < z, z < n[1]) for n in new[1:]]
        offz = z3.And(*[z != n[0] for n in new])
        for k in range(1, len(old)):
            ink = z3.And(old[k][0] < z, z < old[k][1])
            ob.prove(z3.Implies(z3.And(ink, offz), z3.Sum(*[z3.If(f, 1, 0) for f in inl]) == 1), 'layers-cover',
                     'an elevation strictly inside old layer %d and off the new boundaries is in exactly one new layer' % k,
                     extra=dict(z=lambda m: sym.model_value(m, z)))
            for j, n in enumerate(new[1:]):
                ob.prove(z3.Implies(z3.And(ink, inl[j]), z3.And(n[0] >= old[k][0], n[1] <= old[k][1])), 'layers-inside',
                         'the new layer containing an elevation of old layer %d lies inside it' % k,
                         extra=dict(z=lambda m: sym.model_value(m, z)))
        # equal subdivision of the refined layers
        pos = 1
        for k in range(1, len(old)):
            f = factor if k in sel else 1
            th = (old[k][1] - old[k][0]) / f
            grp = new[pos:pos + f]
            if len(grp) == f:
                ob.prove(z3.And(*[g[1] - g[0] == th for g in grp]), 'layers-equal',
                         'old layer %d is split into %d layers of equal thickness' % (k, f))
            pos += f
        # columns: num_layers, volume
        after = geo_state(geo)
        for i, (s0, s1) in enumerate(zip(before, after)):
            nl = z3.Sum(*[z3.If(n[0] < s1['surf'], 1, 0) for n in new[1:]])
            ob.prove(nl == s1['nl'], 'layers-num_layers', 'column %d: num_layers counts the layers whose bottom is below the surface' % i)
            ob.prove(s1['surf'] == s0['surf'], 'layers-surface', 'column %d keeps its surface' % i)
            v = z3.RealVal(0)
            for lay in geo.layerlist[1:]:
                if geo.block_name(lay.name, geo.columnlist[i].name) in geo.block_name_index:
                    bv = geo.block_volume(lay, geo.columnlist[i])
                    if bv is None: ob.prove(False, 'layers-volume', 'listed block without volume'); continue
                    v = v + E(bv)
            ob.prove(v == colvol0[i], 'layers-volume', 'column %d: rock volume unchanged' % i)
        v1, nblk = real_volume(c, geo)
        ob.prove(v1 == vol0, 'total-volume', 'sum of block_volume over the listed blocks (%d)' % nblk)
        ob.prove(E(geo.area) == z3.Sum(*[s['area'] for s in before]), 'total-area', 'plan area untouched')
        if not samples:
            samples.append(dict(task=name, family=fam, layers=layers, factor=factor, layers_after=len(new), obligations=ob.count))
        return 'checked'
    res = sym.explore(h, sym.Ctx(timeout_ms=20000), max_paths=3000, wall_s=600)
    return report.summarize(name, res, failures, samples, extra=dict(distinct_obligations=len(distinct)))


# ---------------------------------------------------------------------------
# catalogue of shapes (enumerated) per tier

def _subsets(n):
    return [[i for i in range(n) if m >> i & 1] for m in range(1, 2 ** n)]

R22 = dict(kind='RECT', nx=2, ny=2, nz=2, surf='mixed')
R33 = dict(kind='RECT', nx=3, ny=3, nz=2, surf='mixed')
R33_SHAPES = {'single-centre': [4], 'single-corner': [0], 'strip': [3, 4, 5], 'L': [0, 3, 6, 7, 8], 'ring': [0, 1, 2, 3, 5, 6, 7, 8],
              'boundary-pair': [1, 2], 'all': list(range(9)), 'all-but-one': [0, 1, 2, 3, 4, 5, 6, 7]}
Q1 = dict(kind='Q1', nz=2, surf='in1')
Q4 = dict(kind='Q4', nz=2, surf='mixed')

HANG_SHAPES = [  # hanging nodes per side (bottom, right, top, left) of the centre column
    [1, 0, 0, 0], [0, 1, 0, 0], [0, 0, 1, 0], [0, 0, 0, 1],                 # (5,1)
    [1, 0, 1, 0], [0, 1, 0, 1],                                             # (6,2) opposite
    [1, 1, 0, 0], [0, 1, 1, 0], [0, 0, 1, 1], [1, 0, 0, 1],                 # (6,2) adjacent
    [2, 0, 0, 0], [0, 0, 2, 0],                                             # (6,2) same side
    [1, 1, 1, 0], [0, 1, 1, 1], [1, 0, 1, 1], [1, 1, 0, 1],                 # (7,3) one per side
    [2, 1, 0, 0], [2, 0, 1, 0], [3, 0, 0, 0], [1, 2, 0, 0], [0, 1, 0, 2],   # (7,3) other distributions
    [1, 1, 1, 1],                                                           # (8,4) one per side
    [2, 1, 1, 0], [2, 2, 0, 0], [2, 0, 2, 0], [3, 1, 0, 0], [4, 0, 0, 0],   # (8,4) other distributions
    [2, 1, 1, 1], [2, 2, 1, 1],                                             # 9, 10 nodes
]
HANG_QUICK = [[1, 0, 0, 0], [0, 0, 0, 1], [1, 0, 1, 0], [1, 1, 0, 0], [2, 0, 0, 0], [1, 1, 1, 0], [2, 0, 1, 0], [2, 1, 0, 0],
              [1, 1, 1, 1], [2, 1, 1, 0]]

CONC_SHAPES = {
    'pentagon': [[(0, 0), (4, 0), (6, 3), (3, 6), (-1, 3)]],
    'hexagon': [[(0, 0), (4, 0), (6, 3), (4, 6), (0, 6), (-2, 3)]],
    'heptagon': [[(0, 0), (4, 0), (7, 2), (8, 5), (4, 8), (0, 7), (-2, 3)]],
    'octagon': [[(0, 0), (3, 0), (5, 2), (5, 5), (3, 7), (0, 7), (-2, 5), (-2, 2)]],
    'nonagon': [[(0, 0), (3, 0), (5, 1), (6, 3), (5, 6), (3, 8), (0, 8), (-2, 6), (-3, 3)]],
    'triangle-3-straight': [[(0, 0), (4, 0), (8, 0), (6, 3), (4, 6), (2, 3)]],
    'pentagon-1-straight-oblique': [[(0, 0), (6, 0), (6, 4), (3, 7), (0, 4), ], ],
    'pentagon+quad': [[(0, 0), (4, 0), (6, 3), (3, 6), (-1, 3)], [(4, 0), (8, 0), (9, 3), (6, 3)]],
}


def catalogue(tier):
    T = []
    def plan(fam, steps, name): T.append((task_plan, dict(fam=fam, steps=steps, name=name)))
    def lay(fam, layers, factor, name): T.append((task_layers, dict(fam=fam, layers=layers, factor=factor, name=name)))
    thorough = tier == 'thorough'
    # --- refine on RECT(2x2): every subset -------------------------------------
    for sel in _subsets(4):
        tag = ''.join(map(str, sel))
        plan(R22, [dict(op='refine', sel=sel)], 'R2x2/refine/%s' % tag)
        for b in ('x', 'y'):
            if thorough or sel in ([0], [3], [0, 3], [0, 1, 2, 3]):
                plan(R22, [dict(op='refine', sel=sel, bisect=b)], 'R2x2/bisect-%s/%s' % (b, tag))
        if thorough or sel in ([0], [2], [1, 2]):
            plan(R22, [dict(op='refine', sel=sel, bisect=True)], 'R2x2/bisect-longest/%s' % tag)
    # bisected edge columns
    plan(R22, [dict(op='refine', sel=[0], bisect='y', edge=[1, 3])], 'R2x2/bisect-y+edge/0|13')
    plan(R22, [dict(op='refine', sel=[0, 1], edge=[2, 3])], 'R2x2/refine+edge/01|23')
    if thorough:
        plan(R22, [dict(op='refine', sel=[0], bisect='x', edge=[2, 3])], 'R2x2/bisect-x+edge/0|23')
        plan(R22, [dict(op='refine', sel=[3], edge=[1, 2])], 'R2x2/refine+edge/3|12')
        plan(R22, [dict(op='refine', sel=[1], bisect=True, edge=[0, 2])], 'R2x2/bisect-longest+edge/1|02')
    # other surface patterns / atmosphere types / conventions
    for k, fam in enumerate([dict(R22, surf='mixed2'), dict(R22, surf='default', atm=0), dict(R22, surf='in1', atm=1, conv=1),
                             dict(R22, surf='deep', conv=2), dict(R22, nz=1, surf='mixed'), dict(R22, nz=3, surf='mixed2', conv=3)]):
        if thorough or k < 3:
            plan(fam, [dict(op='refine', sel=[0, 3])], 'R2x2v%d/refine/03' % k)
    # --- the same meshes as a geometry FILE may describe them: connections filed with their columns in the
    # other order (all of them / every second one), left-justified names
    RF = dict(R22, conn_flip='all'); RA = dict(R22, conn_flip='alt'); RL = dict(R22, justify='l')
    if thorough:
        filecases = [(RF, sel, 'x') for sel in _subsets(4)] + [(RF, [i], b) for i in range(4) for b in ('y', True)]
        filecases += [(RF, sel, True) for sel in ([1, 2], [0, 3], [0, 1, 3])] + [(RF, sel, False) for sel in ([0], [1, 2], [0, 1, 3])]
        filecases += [(RA, sel, 'y') for sel in _subsets(4)] + [(RA, sel, b) for sel in ([0], [1, 2]) for b in (True, False)]
        filecases += [(RL, sel, b) for sel in ([0], [3], [1, 2], [0, 1, 2, 3]) for b in ('x', True, False)]
    else:
        filecases = [(RF, [0], 'x'), (RF, [0], 'y'), (RF, [3], 'x'), (RF, [1, 2], True), (RF, [1, 2], False),
                     (RA, [0], 'y'), (RA, [3], 'x'), (RA, [1, 2], True), (RL, [0], 'x'), (RL, [1, 2], False)]
    for fam, sel, b in filecases:
        ftag = 'flip' if fam is RF else ('altflip' if fam is RA else 'ljust')
        plan(fam, [dict(op='refine', sel=sel, bisect=b)], 'R2x2%s/refine-bisect=%s/%s' % (ftag, b, ''.join(map(str, sel))))
    if thorough:
        plan(RL, [dict(op='split', col=0, node=1)], 'R2x2ljust/split/c0n1')
        plan(RL, [dict(op='triangulate', col=2)], 'R2x2ljust/triangulate/c2')
    plan(RF, [dict(op='refine', sel=[0], bisect='y', edge=[1, 3])], 'R2x2flip/bisect-y+edge/0|13')
    plan(RA, [dict(op='split', col=0, node=1)], 'R2x2altflip/split/c0n1')
    if thorough:      # 16 paths (every triangle forks on the order of its sides)
        plan(RF, [dict(op='refine', sel=[0]), dict(op='refine', sel='triangles', bisect=True)], 'R2x2flip/bisect-after-refine/0>triangles')
    # --- refine on RECT(3x3) --------------------------------------------------------
    if thorough:
        sels = {}
        for nm, s in R33_SHAPES.items(): sels[nm] = s
        for i in range(9): sels.setdefault('single-%d' % i, [i])
        for r in range(3):
            sels['row-%d' % r] = [3 * r, 3 * r + 1, 3 * r + 2]; sels['col-%d' % r] = [r, r + 3, r + 6]
        for r in range(2):
            sels['rows-%d%d' % (r, r + 1)] = list(range(3 * r, 3 * r + 6)); sels['cols-%d%d' % (r, r + 1)] = [c + 3 * j for j in range(3) for c in (r, r + 1)]
        for nm, s in [('diag', [0, 4, 8]), ('anti-diag', [2, 4, 6]), ('corners', [0, 2, 6, 8]), ('plus', [1, 3, 4, 5, 7]), ('checker', [0, 2, 4, 6, 8]),
                      ('edges-mid', [1, 3, 5, 7]), ('T', [0, 1, 2, 4, 7]), ('U', [0, 2, 3, 5, 6, 7, 8]), ('block', [0, 1, 3, 4]), ('block2', [4, 5, 7, 8]),
                      ('pair-v', [4, 7]), ('pair-h', [3, 4]), ('two-apart', [0, 2]), ('knight', [0, 5])]:
            sels[nm] = s
    else:
        sels = {k: R33_SHAPES[k] for k in ('single-centre', 'strip', 'L', 'ring')}
    for nm, s in sels.items():
        plan(R33, [dict(op='refine', sel=s)], 'R3x3/refine/%s' % nm)
    for nm in (list(R33_SHAPES) if thorough else ['single-centre', 'L']):
        for b in ('x', 'y'):
            plan(R33, [dict(op='refine', sel=R33_SHAPES[nm], bisect=b)], 'R3x3/bisect-%s/%s' % (b, nm))
    for nm in (['single-centre', 'single-corner', 'boundary-pair', 'strip'] if thorough else ['single-centre']):
        plan(R33, [dict(op='refine', sel=R33_SHAPES[nm], bisect=True)], 'R3x3/bisect-longest/%s' % nm)
    plan(R33, [dict(op='refine', sel=[0, 1, 2], edge=[3, 4, 5])], 'R3x3/refine+edge/row0|row1')
    # edge columns that touch no bisected side (left / right of a column bisected in y): nothing to do for them
    plan(R33, [dict(op='refine', sel=[4], bisect='y', edge=[3, 5])], 'R3x3/bisect-y+edge/4|35')
    if thorough:
        plan(R33, [dict(op='refine', sel=[4], bisect='x', edge=[1, 7])], 'R3x3/bisect-x+edge/4|17')
        plan(R33, [dict(op='refine', sel=[4], bisect='y', edge=[1, 3])], 'R3x3/bisect-y+edge/4|13')
        plan(R33, [dict(op='refine', sel=[0], bisect=True, edge=[8])], 'R3x3/bisect-longest+edge/0|8')
    if thorough:
        plan(R33, [dict(op='refine', sel=[4], edge=[1, 3, 5, 7])], 'R3x3/refine+edge/4|1357')
        plan(R33, [dict(op='refine', sel=[0, 3, 6], bisect='x', edge=[1, 4, 7])], 'R3x3/bisect-x+edge/col0|col1')
    # --- earlier refinements (triangles present) -------------------------------------
    plan(R22, [dict(op='refine', sel=[0]), dict(op='refine', sel=[2, 3])], 'R2x2/refine-after-refine/0>23')
    plan(R22, [dict(op='refine', sel=[0]), dict(op='refine', sel='triangles')], 'R2x2/refine-after-refine/0>triangles')
    if thorough:
        plan(R22, [dict(op='refine', sel=[0]), dict(op='refine', sel='all')], 'R2x2/refine-after-refine/0>all')
        for i in range(11):
            plan(R22, [dict(op='refine', sel=[0]), dict(op='refine', sel=[i])], 'R2x2/refine-after-refine/0>%d' % i)
        plan(R22, [dict(op='refine', sel=[0]), dict(op='refine', sel='triangles', bisect=True)], 'R2x2/bisect-after-refine/0>triangles')
        plan(R22, [dict(op='refine', sel=[0, 3]), dict(op='refine', sel='all', bisect='x')], 'R2x2/bisect-x-after-refine/03>all')
    # --- split_column, triangulate_column ----------------------------------------------
    for col in ((0, 1, 2, 3) if thorough else (0, 3)):
        for nd in range(4):
            if thorough or nd in (0, 1):
                plan(R22, [dict(op='split', col=col, node=nd)], 'R2x2/split/c%dn%d' % (col, nd))
    # split A, then split an adjacent B (canonical index of B after the first split), all node choices
    for a_nd in range(4):
        for b_nd in range(4):
            plan(R22, [dict(op='split', col=0, node=a_nd), dict(op='split', col='quad0', node=b_nd)], 'R2x2/split-split/c0n%d>q0n%d' % (a_nd, b_nd))
            if thorough:
                plan(R22, [dict(op='split', col=3, node=a_nd), dict(op='split', col='quad1', node=b_nd)], 'R2x2/split-split/c3n%d>q1n%d' % (a_nd, b_nd))
                plan(Q4, [dict(op='split', col=1, node=a_nd), dict(op='split', col='quad0', node=b_nd)], 'Q4/split-split/c1n%d>q0n%d' % (a_nd, b_nd))
    for col in ((0, 1, 2, 3) if thorough else (1,)):
        plan(R22, [dict(op='triangulate', col=col)], 'R2x2/triangulate/c%d' % col)
    plan(R22, [dict(op='refine', sel=[0]), dict(op='triangulate', col=1)], 'R2x2/triangulate-after-refine/0>1')
    # --- QUADFAM ---------------------------------------------------------------------------
    for b in (False, 'x', 'y', True):
        plan(Q1, [dict(op='refine', sel=[0], bisect=b)], 'Q1/refine/bisect=%s' % b)
    for nd in range(4):
        plan(Q1, [dict(op='split', col=0, node=nd)], 'Q1/split/n%d' % nd)
    plan(Q1, [dict(op='triangulate', col=0)], 'Q1/triangulate')
    for sel in (_subsets(4) if thorough else [[0], [0, 3]]):
        plan(Q4, [dict(op='refine', sel=sel)], 'Q4/refine/%s' % ''.join(map(str, sel)))
    for sel in ([[0], [1, 2], [0, 1, 2, 3]] if thorough else [[1]]):
        for b in (('x', 'y', True) if thorough else (True,)):
            plan(Q4, [dict(op='refine', sel=sel, bisect=b)], 'Q4/bisect-%s/%s' % (b, ''.join(map(str, sel))))
    for col in ((0, 1, 2, 3) if thorough else (2,)):
        for nd in ((0, 1, 2, 3) if thorough else (0, 3)):
            plan(Q4, [dict(op='split', col=col, node=nd)], 'Q4/split/c%dn%d' % (col, nd))
        plan(Q4, [dict(op='triangulate', col=col)], 'Q4/triangulate/c%d' % col)
    if thorough:
        plan(dict(Q1, centre='centroid', cover='area', conformity=False), [dict(op='refine', sel=[0])], 'Q1centroid/refine')
        plan(dict(Q1, centre='centroid', cover='area', conformity=False), [dict(op='triangulate', col=0)], 'Q1centroid/triangulate')
    # --- decompose_columns ------------------------------------------------------------------
    for hang in (HANG_SHAPES if thorough else HANG_QUICK):
        fam = dict(kind='HANG', nz=2, hang=hang, surf='mixed')
        plan(fam, [dict(op='decompose', sel='all')], 'HANG%s/decompose-all' % ''.join(map(str, hang)))
    # the same polygon described from each of its starting nodes (7-node columns: the (7,3) case
    # computes its start from list positions)
    seven = [h for h in HANG_SHAPES if sum(h) == 3]
    for hang in (seven if thorough else [[2, 0, 1, 0]]):
        for rot in range(1, 7):
            # cover='area': most of these are triangulated about the centroid (a rational function), where
            # the pointwise cover query would only burn its 10 s before falling back
            fam = dict(kind='HANG', nz=2, hang=hang, surf='mixed', rot=rot, cover='area')
            plan(fam, [dict(op='decompose', sel='all')], 'HANG%s/rot%d/decompose-all' % (''.join(map(str, hang)), rot))
    for hang in ([[1, 0, 0, 0], [1, 1, 1, 1], [1, 0, 1, 0]] if thorough else [[1, 1, 0, 0]]):
        fam = dict(kind='HANG', nz=2, hang=hang, surf='mixed')
        plan(fam, [dict(op='decompose', sel=['centre'])], 'HANG%s/decompose-centre' % ''.join(map(str, hang)))
        plan(fam, [dict(op='triangulate', col='centre')], 'HANG%s/triangulate-centre' % ''.join(map(str, hang)))
    for nm, polys in CONC_SHAPES.items():
        if thorough or nm in ('pentagon', 'octagon', 'pentagon+quad'):
            fam = dict(kind='CONC', nz=2, polys=polys, surf='in1')
            plan(fam, [dict(op='decompose', sel='all')], 'CONC-%s/decompose-all' % nm)
    # --- refine_layers ----------------------------------------------------------------------------
    L11 = dict(kind='RECT', nx=1, ny=1, nz=3, surf='free')
    L21 = dict(kind='RECT', nx=2, ny=1, nz=3, surf='free')
    combos = []
    for layers in [[]] + _subsets(3):
        for f in (2, 3, 4):
            combos.append(([i + 1 for i in layers], f))
    if not thorough: combos = [c for c in combos if c in (([], 2), ([1], 3), ([2, 3], 2), ([1, 3], 4), ([2], 2), ([1, 2, 3], 3))]
    for layers, f in combos:
        lay(L11, layers, f, 'R1x1x3/refine_layers/%s/x%d' % (''.join(map(str, layers)) or 'all', f))
    if thorough:
        for layers, f in (([2], 2), ([1, 3], 3), ([], 2)):
            lay(L21, layers, f, 'R2x1x3/refine_layers/%s/x%d' % (''.join(map(str, layers)) or 'all', f))
    lay(dict(kind='RECT', nx=1, ny=1, nz=2, surf='free', atm=0), [1], 2, 'R1x1x2atm0/refine_layers/1/x2')
    # the atmosphere layer of a geometry may have any name, also one that the regenerated sequence will use
    lay(dict(kind='RECT', nx=1, ny=1, nz=2, surf='free', atm=0, atm_name=' 3'), [], 2, 'R1x1x2atm0name3/refine_layers/all/x2')
    if thorough:
        lay(dict(kind='RECT', nx=1, ny=1, nz=2, surf='free', atm=1, atm_name=' 3'), [2], 3, 'R1x1x2atm1name3/refine_layers/2/x3')
        lay(dict(kind='RECT', nx=1, ny=1, nz=2, surf='free', atm=2, atm_name=' 4'), [1], 4, 'R1x1x2atm2name4/refine_layers/1/x4')
        lay(dict(kind='RECT', nx=1, ny=1, nz=2, surf='free', atm=0, atm_name='tp'), [], 2, 'R1x1x2atm0nametp/refine_layers/all/x2')
    if thorough:
        lay(dict(kind='RECT', nx=1, ny=1, nz=2, surf='free', atm=1, conv=1), [], 3, 'R1x1x2atm1/refine_layers/all/x3')
        lay(dict(kind='RECT', nx=2, ny=2, nz=2, surf='mixed', conv=2), [2], 2, 'R2x2x2/refine_layers/2/x2')
    return T


RULE = ('one obligation = one z3 query "path condition AND NOT clause" for one clause (total-area, total-volume, stored-area, convex, '
        'disjoint pair, cover of one old column, inside-old for one (old, new) pair, conformity of one edge, layer clauses) on one path of '
        'one (family, edit) shape; distinct = distinct non-constant formulas by (clause kind, z3 AST hash)')


def run(tier, seed, rep):
    _load()
    tasks = catalogue(tier)
    only = os.environ.get('C11_ONLY')          # development aid: run the tasks whose name contains one of these substrings
    if only: tasks = [t for t in tasks if any(o in t[1]['name'] for o in only.split(','))]
    if seed:
        import random
        random.Random(seed).shuffle(tasks)
    # wall-clock guard: a broken tree can make single queries time out by the hundred
    results = report.run_tasks(tasks, wall_s=1500 if tier == 'thorough' else 420)
    rep.add_results(results)
    for r in results:
        if not r.get('error') and not (r.get('outcomes', {}).get('checked') or r.get('outcomes', {}).get('degenerate-column') or r.get('outcomes', {}).get('raised')):
            rep.harness_error('%s: no path reached the obligations (outcomes %r)' % (r['name'], r.get('outcomes')))
    rep.bounds += [
        'RECT(2x2): symbolic spacings > 0, symbolic origin, 1-3 symbolic layer thicknesses > 0, symbolic per-column surfaces placed by an enumerated pattern '
        '(above the top, at the top, strictly inside a layer, at a layer boundary, below the bottom); all 15 column subsets, full refinement and x / y / longest-side bisection; 3-5 bisected-edge-column configurations',
        'RECT(3x3): %s selections (quick: 4 named shapes: single, strip, L, ring with hole; thorough: those plus every single column, rows, columns, 14 further patterns) - NOT all 511 subsets' % ('46' if tier == 'thorough' else '4'),
        'QUADFAM: Q1 = quadrilateral (0,0)(1,0)(a,b)(0,1) with a,b>0, a+b>1 and its centre specified at (1/2,1/2); Q4 = 2x2 unit squares whose shared node is moved to (a,b), |a-1|+|b-1|<1, centres left at the cell centres; symbolic origin',
        'RECT(2x2) as a geometry file may describe it: every connection (or every second one) filed with its two columns in the other order, and left-justified names: x / y / longest-side bisection and full refinement of %s' % ('all 15 / selected subsets' if tier == 'thorough' else '3 subsets') + '; bisected edge columns that touch no bisected side (RECT(3x3))',
        'refine_layers with an atmosphere layer whose name is one the regenerated sequence uses (and one it does not use)',
        'earlier refinements: RECT(2x2) refined at column 0, then refined again (each single column of the result, all, all triangles)',
        'two-step splits: split_column of a column, then of an adjacent quadrilateral, all 16 node choices (RECT(2x2); a second pair and Q4 in the thorough tier)',
        'decompose_columns: rectangular centre column with 1-6 hanging (straight) nodes distributed over its sides at symbolic positions, lined with small symbolic neighbour columns (%d distributions; the 7-node ones also with the node list started at each of the 7 nodes); %d concrete convex 5..9-gons with symbolic surfaces/layers/query point' % (len(HANG_SHAPES if tier == 'thorough' else HANG_QUICK), len(CONC_SHAPES) if tier == 'thorough' else 3),
        'refine_layers: RECT(1x1) (and 2x1, 2x2 in the thorough tier) with 2-3 symbolic layers, symbolic surfaces anywhere (the position among the new layer boundaries is forked), every layer subset, factor 2..4',
        'query point p and elevation z: unconstrained reals']
    rep.outside += ['all 511 column subsets of RECT(3x3); meshes larger than 3x3',
                    'refinement of the shipped irregular geometries g1..g7',
                    'columns whose centre is the centroid of a symbolic non-rectangular polygon: only area/volume/disjoint/cover-by-area/inside-old are decided there (thorough tier, Q1centroid); conformity of those is outside (z3 nlsat does not finish)',
                    'decomposition of columns with 5..8 sides and symbolic non-axis-aligned angles (decompose_column calls asin on them): only rectilinear symbolic shapes and concrete polygons',
                    'IEEE rounding (exact real arithmetic); concrete polygons use integer coordinates and their float centroids are taken as exact rationals']
    rep.assumptions += [
        'set iteration order of node/column/connection objects: CPython hashes them by address; the harness replaces __hash__ by a first-use counter so that re-executions are deterministic (identity equality untouched); VERIF_SEED changes the order',
        'after a direct triangulate_column call the harness calls setup_block_name_index/setup_block_connection_name_index (as decompose_columns does) before reading block volumes',
        'cover is decided in the closed form "p strictly inside old column k => p in the closure of some column"; together with the `convex` lemma and `disjoint` this gives: p off every edge => p strictly inside exactly one column',
        'Q1centroid only: closed cover is derived from disjoint + inside-old + equal area (finitely many convex polygons with disjoint interiors inside K whose areas add up to area(K) cover K)',
        'surface exactly at a layer boundary and below the lowest layer are included as patterns; every column of a pattern gets its own symbol']
    rep.trusted += ['half-plane containment, shoelace area, open-segment test written in harness/C11.py (independent of geometry.py)']
    rep.process_failures()
    return rep.finish(rule=RULE)
