"""C02 - fixed-column records never spill.

For every record kind of the four format tables the REAL
write_values_to_string / parse_string (reloaded from /repo) run on symbolic
field values.  Obligations (DESIGN.md 4/C02):
  A  per field: is there a value in the quantifier's lattice whose rendering
     is wider than the field, and if so does the write raise or keep every
     other field in place (losing precision only in the wide value)?
  B  with every field fitting: parse_string(write(vals))[i] is the value
     written to field i (R_fmt(v) for reals, the integer, the name), and
     None for absent values.
"""
import time
import z3
from fractions import Fraction
from vx import sym, strs, loader, report, vfs as vfsmod
from vx.sym import SReal, SInt, SBool
from vx.strs import SStr, SChar

PID = 'C02'

TABLES = [
    ('t2data', 't2data', 't2data_format_specification', 't2data_parser'),
    ('t2data_xp', 't2data', 't2data_extra_precision_format_specification', 't2_extra_precision_data_parser'),
    ('t2incon', 't2incons', 't2incon_format_specification', 't2incon_parser'),
    ('mulgrid', 'mulgrids', 'mulgrid_format_specification', None),
]


_LD = None
def _load():
    """Reload the modules from /repo once per check run (workers are forked
    from the parent after this, so they share the same fresh copies)."""
    global _LD
    if _LD is None:
        fs = vfsmod.VFS()
        _LD = (loader.load(['fixed_format_file', 'mulgrids', 't2incons', 't2data'], vfs=fs), fs)
    return _LD


def _parser(ld, table):
    tname, modname, specname, cls = table
    mod = getattr(ld, modname)
    if cls is not None:
        return getattr(mod, cls)('vf_' + tname, 'w')
    return ld.fixed_format_file.fixed_format_file('vf_' + tname, 'w', getattr(mod, specname))


def _spec_fields(spec):
    out = []
    for s in spec:
        typ = s[-1]
        fmt = s[:-1]
        wtxt, _, ptxt = fmt.partition('.')
        out.append((typ, int(wtxt), int(ptxt) if ptxt else 0, s))
    return out


NAME_ALPHA = [(48, 57), (65, 90), (97, 122)]

def _sym_name(c, base, n):
    cells = []
    for k in range(n):
        e = z3.Int('%s.%d' % (base, k))
        c.add(z3.Or(*[z3.And(e >= lo, e <= hi) for lo, hi in NAME_ALPHA]))
        cells.append(SChar(e))
    return strs._mk(cells) if cells else ''


LAT_LO = Fraction(1, 10 ** 120)
LAT_HI = Fraction(10 ** 120)


def _make_values(c, fields, absent, namelen):
    """symbolic value per field + its length term (None for names / absent)."""
    vals, Ls = [], []
    for i, (typ, w, p, s) in enumerate(fields):
        aw = abs(w)
        if typ == 'x' or i in absent:
            vals.append(None); Ls.append(None); continue
        if typ in 'ef':
            v = c.real('v%d' % i)
            a = z3.If(v.e >= 0, v.e, -v.e)
            hi = LAT_HI if typ == 'e' else Fraction(10 ** (aw + 2))   # %f: up to 2 digits past the field
            c.add(z3.Or(v.e == 0, z3.And(a >= z3.RealVal(LAT_LO), a <= z3.RealVal(hi))))
            r = strs.rounded_value(typ, p, v.e)
            Ls.append(strs.natural_length(typ, p, v.e, r))
            vals.append(v)
        elif typ == 'd':
            v = c.int('v%d' % i, -(10 ** aw), 10 ** aw)
            Ls.append(strs.natural_length('d', 0, z3.ToReal(v.e), None))
            vals.append(v)
        elif typ == 's':
            n = aw if namelen == 'full' else min(aw, namelen)
            vals.append(_sym_name(c, 'n%d' % i, n)); Ls.append(None)
        else:
            raise sym.Unsupported('spec type %r' % typ)
    return vals, Ls


def _expected_ok(parsed, val, field, reader):
    """z3 Bool / python bool: parsed value equals what was written."""
    typ, w, p, s = field
    aw = abs(w)
    if val is None:
        if typ == 's':
            if isinstance(parsed, (str, SStr)):
                return parsed.strip() == ''
            return parsed is None
        return parsed is None
    if typ in 'ef':
        if not isinstance(parsed, SReal): return False
        return parsed.e == strs.rounded_value(typ, p, val.e)
    if typ == 'd':
        if not isinstance(parsed, SInt): return False
        return parsed.e == val.e
    if typ == 's':
        n = len(val)
        exp = (val + ' ' * (aw - n)) if w < 0 else (' ' * (aw - n) + val)
        if not isinstance(parsed, (str, SStr)): return False
        r = (parsed == exp)
        return r
    return False


def _precision_loss_ok(parsed, val, field=None):
    """spilled real may come back with fewer digits: within 50% and same sign -
    and with as many decimals as its columns can hold: if it was printed with
    precision p', printing it with p' + 1 must not fit."""
    if not isinstance(parsed, SReal): return False
    a = z3.If(val.e >= 0, val.e, -val.e)
    d = parsed.e - val.e
    ok = z3.And(d <= a / 2, -d <= a / 2)
    if field is not None and z3.is_app(parsed.e) and parsed.e.num_args() == 1:
        name = parsed.e.decl().name()          # R_<kind><p'>
        typ, w, p, s = field
        if name.startswith('R_' + typ) and name[3:].isdigit() and parsed.e.arg(0).eq(val.e):
            p1 = int(name[3:]) + 1
            if p1 <= p:
                r1 = strs.rounded_value(typ, p1, val.e)
                ok = z3.And(ok, strs.natural_length(typ, p1, val.e, r1) > abs(w))
    return ok


def _witness(m, vals):
    out = []
    for v in vals:
        if v is None: out.append(None)
        elif isinstance(v, (SReal, SInt)): out.append(sym.model_value(m, v.e))
        elif isinstance(v, SStr):
            out.append(''.join(c if isinstance(c, str) else chr(sym.model_value(m, c.code)) for c in v.cells))
        else: out.append(v)
    return out


def task_record(table_idx, rec, mode, field=None, namelen='full', field2=None, second=0, seed=0):
    """mode: 'fit' (all fields fit; obligation B, and obligation A queries),
             'absent' (field `field` is None, others fit),
             'spill' (field `field` is wider than its columns, others fit)."""
    table = TABLES[table_idx]
    ld, fs = _load()
    p0 = _parser(ld, table)
    spec = p0.specification[rec]
    fields = _spec_fields(spec[1])
    reader = 'fortran' if table[0] == 't2incon' else 'default'
    failures = []
    samples = []
    distinct = set()

    def h(c):
        p = _parser(ld, table)
        absent = ({field} | ({field2} if field2 is not None else set())) if mode == 'absent' else set()
        spilled = ({field} | ({field2} if field2 is not None else set())) if mode == 'spill' else set()
        vals, Ls = _make_values(c, fields, absent, namelen)
        spill_possible = {}
        if mode == 'fit' and namelen == 'full':
            # Obligation A: can the rendering be wider than the field?
            for i, L in enumerate(Ls):
                if L is None: continue
                r, m = c.solve(L > abs(fields[i][1]))
                spill_possible[i] = r
        for i, L in enumerate(Ls):
            if L is None: continue
            if i in spilled: c.add(L > abs(fields[i][1]))
            else: c.add(L <= abs(fields[i][1]))
        if mode == 'spill':
            r, _ = c.solve(z3.BoolVal(True), full=True)
            if r == 'unsat': return 'no-spill-possible'
        try:
            line = p.write_values_to_string(vals, rec)
        except (ValueError, OverflowError) as ex:
            return 'raised:' + type(ex).__name__
        width_ok = True
        parsed = p.parse_string(line, rec)
        if len(samples) < 1:
            samples.append(dict(table=table[0], record=rec, mode=mode, line=repr(line)[:200],
                                parsed=repr(parsed)[:300]))
        if len(parsed) != len(fields):
            c.prove(False, 'parse length')
        for i, fld in enumerate(fields):
            if i in spilled and fld[0] in 'ef':
                ok = _precision_loss_ok(parsed[i], vals[i], fld)
            else:
                ok = _expected_ok(parsed[i], vals[i], fld, reader)
            if isinstance(ok, SBool): ok = ok.e
            lab = 'field %d (%s %s) parses back' % (i, spec[0][i], fld[3])
            if not isinstance(ok, bool): distinct.add((lab, z3.simplify(ok).hash()))
            r = c.prove(ok, lab, info=i)
            if r == 'sat':
                f = c.failures[-1]
                kind = 'spill' if mode == 'spill' else ('absent' if mode == 'absent' else 'fit')
                failures.append(dict(
                    key='%s/%s/%s/field%d:%s' % (table[0], rec, kind, field if mode != 'fit' else i, fields[field if mode != 'fit' else i][3]),
                    what='record %s of %s: field %d (%s) does not parse back (%s)' % (rec, table[0], i, spec[0][i], kind),
                    replay=dict(table=table[0], record=rec, values=_witness(f['model'], vals), field=i, mode=mode)))
                break
        return 'checked'

    cx = sym.Ctx(timeout_ms=30000)
    cx.second_every, cx.second_offset = second, seed
    res = sym.explore(h, cx, max_paths=600)
    tr = report.summarize('%s/%s/%s%s%s' % (table[0], rec, mode, '' if field is None else ':%d' % field, '' if field2 is None else '+%d' % field2),
                          res, failures, samples,
                          extra=dict(distinct_obligations=len(distinct)))
    return tr


WRITERS = ['incon-nseq', 'incon-nadd', 'block-nseq', 'connection-nseq', 'generator-nseq']

def task_writer(which):
    """File-level writers of t2data must not swallow the error of a value that cannot be
    represented in its columns (an integer one past its '5d' field): dat.write() fails
    loudly; it never silently drops or corrupts the record."""
    ld, fs = _load()
    T, G = ld.t2data, ld.t2grids
    failures, samples = [], []
    def h(c):
        fs.files.clear()
        dat = T.t2data()
        r = G.rocktype(); dat.grid.add_rocktype(r)
        blks = [G.t2block(n, 1.0, r) for n in (' a  1', ' b  2', ' c  3')]
        for b in blks: dat.grid.add_block(b)
        con = G.t2connection([blks[0], blks[1]], 1, [1., 1.], 1., 0.)
        dat.grid.add_connection(con)
        dat.grid.add_connection(G.t2connection([blks[1], blks[2]], 1, [1., 1.], 1., 0.))
        big = c.int('big', 100000, 999999)
        for b in blks: dat.incon[b.name] = [0.1, [1.e5, 20.]]
        gen = T.t2generator(name=' ge 1', block=' b  2', gx=1.0)
        dat.add_generator(gen); dat.add_generator(T.t2generator(name=' ge 2', block=' c  3', gx=2.0))
        if which == 'incon-nseq': dat.incon[' b  2'] = [0.1, [1.e5, 20.], big, 1]
        elif which == 'incon-nadd': dat.incon[' b  2'] = [0.1, [1.e5, 20.], 1, big]
        elif which == 'block-nseq': blks[1].nseq = big; blks[1].nadd = 1
        elif which == 'connection-nseq': con.nseq = big
        elif which == 'generator-nseq': gen.nseq = big
        try:
            dat.write('w.dat')
        except ValueError:
            return 'raised'
        c.prove(False, 'an over-wide integer makes the file writer fail loudly')
        m = c.failures[-1]['model']
        failures.append(dict(key='writer/%s/silent' % which, what='t2data.write() returned normally although %s = %s does not fit its 5 columns' % (which, sym.model_value(m, big.e)),
                             replay=dict(writer=which, big=sym.model_value(m, big.e))))
        return 'returned'
    res = sym.explore(h, sym.Ctx(timeout_ms=30000), max_paths=50)
    tr = report.summarize('writer/%s' % which, res, failures, [dict(writer=which, obligation='dat.write() raises ValueError for an integer in [100000, 999999] in a 5d field')],
                          extra=dict(distinct_obligations=0))
    return tr


def validate_printf_model(rep):
    """Differential validation of the natural-length model against the real
    % operator on the boundary lattice (a disagreement is a harness error)."""
    c = sym.Ctx(); sym.set_ctx(c)
    n = bad = 0
    x = z3.Real('x'); r = z3.Real('r')
    forms = {}
    for kind, p in (('e', 2), ('e', 3), ('e', 4), ('e', 6), ('e', 7), ('e', 8), ('e', 9), ('e', 13), ('e', 14), ('f', 1), ('f', 2), ('f', 7), ('f', 8)):
        forms[(kind, p)] = strs.natural_length(kind, p, x, r)
    import itertools
    mants = ['1', '9.9999999999999995', '9.99995', '9.9995', '9.995', '5', '1.5', '9.99949999', '9.4999999']
    exps = list(range(-120, 121, 7)) + [-101, -100, -99, -98, 98, 99, 100, 101, -1, 0, 1, 2, 5, 9, 10]
    for (kind, p), L in forms.items():
        for sgn in ('', '-'):
            for mant in mants:
                for e in exps:
                    if kind == 'f' and not (-30 <= e <= 30): continue
                    v = float('%s%se%d' % (sgn, mant, e))
                    txt = ('%.' + str(p) + kind) % v
                    rv = Fraction(float(txt))
                    got = z3.simplify(z3.substitute(L, (x, z3.RealVal(Fraction(v))), (r, z3.RealVal(rv))))
                    n += 1
                    if got.as_long() != len(txt):
                        bad += 1
                        rep.harness_error('printf model: %%.%d%s of %r has length %d, model says %s' % (p, kind, v, len(txt), got))
        # zero
        for v in (0.0,):
            txt = ('%.' + str(p) + kind) % v
            got = z3.simplify(z3.substitute(L, (x, z3.RealVal(0)), (r, z3.RealVal(0))))
            n += 1
            if got.as_long() != len(txt): bad += 1; rep.harness_error('printf model zero %s%d' % (kind, p))
    Ld = strs.natural_length('d', 0, x, None)
    for k in range(0, 12):
        for v in (10 ** k - 1, 10 ** k, -(10 ** k - 1), -(10 ** k), 10 ** k + 1):
            txt = '%d' % v
            got = z3.simplify(z3.substitute(Ld, (x, z3.RealVal(v))))
            n += 1
            if got.as_long() != len(txt): bad += 1; rep.harness_error('printf model %%d of %d' % v)
    sym.set_ctx(None)
    rep.validated(n)
    return n, bad


def run(tier, seed, rep):
    ld, fs = _load()
    tasks = []
    nrec = nfields = 0
    for ti, table in enumerate(TABLES):
        p0 = _parser(ld, table)
        for rec in sorted(p0.specification):
            fields = _spec_fields(p0.specification[rec][1])
            nrec += 1; nfields += len(fields)
            tasks.append((task_record, dict(table_idx=ti, rec=rec, mode='fit')))
            if any(f[0] == 's' for f in fields):
                tasks.append((task_record, dict(table_idx=ti, rec=rec, mode='fit', namelen=1)))
            for i, f in enumerate(fields):
                if f[0] == 'x': continue
                tasks.append((task_record, dict(table_idx=ti, rec=rec, mode='absent', field=i)))
                if f[0] in 'efd':
                    tasks.append((task_record, dict(table_idx=ti, rec=rec, mode='spill', field=i)))
                if tier == 'thorough' and i + 1 < len(fields) and fields[i + 1][0] != 'x':
                    # two neighbouring fields absent / over-wide at once
                    tasks.append((task_record, dict(table_idx=ti, rec=rec, mode='absent', field=i, field2=i + 1)))
                    if f[0] == 'e' and fields[i + 1][0] == 'e':
                        tasks.append((task_record, dict(table_idx=ti, rec=rec, mode='spill', field=i, field2=i + 1)))
    if tier == 'thorough':
        for t in tasks: t[1].update(second=10, seed=seed)
    tasks += [(task_writer, dict(which=w)) for w in WRITERS]   # every 10th query re-decided by /usr/bin/z3
    # long tasks (%f over-wide) first
    tasks.sort(key=lambda t: 0 if (t[1].get('mode') == 'spill') else 1)
    n, bad = validate_printf_model(rep)
    results = report.run_tasks(tasks)
    rep.add_results(results)
    rep.bounds += ['reals in e-fields: v = 0 or 1e-120 <= |v| <= 1e120, any mantissa (exact real arithmetic); in f-fields: |v| <= 10^(w+2)',
                   'integers: |i| <= 10^w (one past the field width)',
                   'names: full width and length 1 over [0-9A-Za-z]',
                   'quick: one absent field at a time, one over-wide field at a time; thorough: also two neighbouring fields absent / over-wide, and every 10th query re-decided by the z3 4.8.12 binary',
                   '%d record kinds, %d fields in the four tables' % (nrec, nfields)]
    rep.outside += ['IEEE digit generation of %%e/%%f (contract: printf model validated on %d lattice points)' % n,
                    'names containing blanks or punctuation', 'two or more over-wide fields in one record']
    rep.assumptions += ['printf contract: natural length L(v) and read-back value R_fmt(v) with |R-v| <= half ulp of the format, R(R(v)) = R(v)',
                        'float()/int() of a slice covering exactly one rendered number returns that number; any other overlap is reported as misaligned and replayed']
    rep.functions.update(['fixed_format_file.py:preprocess_specification', 'fixed_format_file.py:write_values_to_string',
                          'fixed_format_file.py:parse_string', 'fixed_format_file.py:value_error_none.fn',
                          'fixed_format_file.py:fortran_float', 'fixed_format_file.py:fortran_int',
                          't2data.py:t2data_parser.__init__', 't2incons.py:t2incon_parser.__init__'])
    rep.process_failures()
    return rep.finish(rule='one obligation per (record kind, mode, field): pc AND NOT(parsed field == written value) must be unsat; '
                      'distinct = distinct non-constant formulas by z3 AST hash')
