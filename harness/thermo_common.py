"""Shared helpers of the C14 / C15 harnesses (IAPWS-97 and IFC-67 routines).

* lift(): module-level coefficient tables -> exact rationals (object arrays)
* capture(): run a real function on symbolic inputs and record the local
  variables of its frames (sys.settrace, no source change) and every
  sqrt(argument) -> root pair the engine created
* Script: a proof script of solver steps.  Every step is one query
  `hypotheses AND NOT goal` in a fresh solver, optionally *generalised*
  (sub-terms replaced by fresh variables everywhere in the query - unsat of the
  generalised query implies unsat of the instance).  Proven goals become facts
  that later steps may use as hypotheses.
* deriv(): formal derivative of a z3 real term
"""
import sys
import time
from fractions import Fraction
import numpy as np
import z3
from vx import sym
from vx.sym import SReal


def lift(mod, names):
    """float tables (numpy float or object arrays of floats, lists) -> object
    arrays of exact Fractions, so that n * i * x is exact in symbolic runs."""
    for n in names:
        a = np.asarray(getattr(mod, n))
        out = np.empty(a.shape, dtype=object)
        for idx, v in np.ndenumerate(a):
            out[idx] = Fraction(float(v))
        setattr(mod, n, out)


def capture(fname, fn, *args, only=None, **kw):
    """Run fn(*args) recording, for every frame of a function defined in the
    file `fname` (and named in `only` if given): each (line, local name, value)
    at the moment the name is bound to a new object.
    Returns (ret, {funcname: [frame_log, ...]}, [(sqrt argument, root), ...])."""
    log = {}
    sq = []

    def tracer(frame, event, arg):
        co = frame.f_code
        if not co.co_filename.endswith(fname): return None
        if only is not None and co.co_name not in only: return None
        rec = []
        log.setdefault(co.co_name, []).append(rec)
        seen = {}

        def local(frame, event, arg):
            if event in ('line', 'return'):
                for k, v in list(frame.f_locals.items()):
                    if k not in seen or seen[k] is not v:
                        seen[k] = v
                        rec.append((frame.f_lineno, k, v))
            return local
        return local

    orig = sym.ssqrt

    def ssqrt(x):
        r = orig(x)
        if isinstance(x, SReal) and isinstance(r, SReal):
            sq.append((x, r))
        return r
    sym.ssqrt = ssqrt
    old = sys.gettrace()
    sys.settrace(tracer)
    try:
        ret = fn(*args, **kw)
    finally:
        sys.settrace(old)
        sym.ssqrt = orig
    return ret, log, sq


class MissingLocal(Exception):
    pass


def first(flog, name):
    for ln, k, v in flog:
        if k == name: return v
    raise MissingLocal(name)


def last(flog, name):
    r = None
    hit = False
    for ln, k, v in flog:
        if k == name: r = v; hit = True
    if not hit: raise MissingLocal(name)
    return r


def allv(flog, name):
    return [v for ln, k, v in flog if k == name]


def term(x):
    """z3 real term of a captured value (SReal / number)."""
    return sym.lift_real(x)


def sqrt_constraints(sq):
    """the engine's definition of each captured root: r >= 0 and r*r == argument
    (argument unsimplified, so captured sub-terms can be generalised)."""
    out = []
    for x, r in sq:
        if z3.is_const(r.e) and r.e.decl().kind() == z3.Z3_OP_UNINTERPRETED:
            out += [r.e >= 0, r.e * r.e == x.e]
    return out


def symbols(t):
    acc, seen, st = set(), set(), [t]
    while st:
        u = st.pop()
        if u.get_id() in seen: continue
        seen.add(u.get_id())
        if z3.is_const(u):
            if u.decl().kind() == z3.Z3_OP_UNINTERPRETED: acc.add(str(u))
        else:
            st.extend(u.children())
    return acc


def term_size(t):
    seen, st, n = set(), [t], 0
    while st:
        u = st.pop()
        if u.get_id() in seen: continue
        seen.add(u.get_id()); n += 1
        st.extend(u.children())
    return n


def subst_seq(t, pairs):
    """sequential substitution, largest source term first."""
    for a, b in sorted(pairs, key=lambda ab: -term_size(ab[0])):
        t = z3.substitute(t, (a, b))
    return t


def solve(fs, timeout_ms):
    s = z3.Solver()
    s.set('timeout', int(timeout_ms))
    for f in fs: s.add(f)
    t0 = time.time()
    r = str(s.check())
    dt = time.time() - t0
    return r, dt, (s.model() if r == 'sat' else None), s


def second_solver(s, timeout_s=30):
    """re-decide the query held by solver s with /usr/bin/z3 (4.8.12)."""
    import subprocess
    txt = s.to_smt2()
    try:
        p = subprocess.run(['/usr/bin/z3', '-T:%d' % timeout_s, '-in'], input=txt, capture_output=True,
                           text=True, timeout=timeout_s + 10)
    except Exception as ex:
        return 'error: %s' % ex
    out = (p.stdout or '').strip().split('\n')[0] if p.stdout else ''
    if '(error' in (p.stdout or ''): return 'error: ' + p.stdout[:200]
    return out or 'none'


class Script(object):
    """Proof script bookkeeping on top of a sym.Ctx (stats, unknowns)."""

    def __init__(self, c, distinct, timeout_ms=30000, second=False):
        self.c = c
        self.distinct = distinct
        self.timeout_ms = timeout_ms
        self.steps = []
        self.refuted = []     # (label, model, generalisation pairs)
        self.second = second
        self.second_disagree = []

    def step(self, label, hyps, goal, gens=(), timeout_ms=None, vacuity=True):
        """prove goal from hyps.  gens: list of substitution lists applied in
        order to the whole query (generalisation).  Returns the verdict."""
        c = self.c
        fs = list(hyps) + [z3.Not(goal)]
        for pairs in gens:
            if pairs: fs = [z3.substitute(k, *pairs) for k in fs]
        r, dt, m, s = solve(fs, timeout_ms or self.timeout_ms)
        st = c.stats
        st['queries'] += 1; st['solver_s'] += dt; st[r] = st.get(r, 0) + 1
        st['obligations'] += 1
        rec = dict(step=label, verdict=r, seconds=round(dt, 3), hypotheses=len(hyps),
                   generalised=[[str(b) for a, b in pairs] for pairs in gens if pairs])
        if r == 'unsat':
            st['ob_unsat'] += 1
            self.distinct.add((label, z3.simplify(fs[-1]).hash()))
            if vacuity and hyps:
                rv, dtv, _, _ = solve(fs[:-1], 5000)
                st['queries'] += 1; st['solver_s'] += dtv; st[rv] = st.get(rv, 0) + 1
                rec['hypotheses_satisfiable'] = rv
                if rv == 'unsat':
                    c.unknowns.append(dict(label='vacuous hypotheses in step ' + label, info=None))
            if self.second:
                r2 = second_solver(s)
                rec['second_solver'] = r2
                if r2 not in ('unsat', 'unknown', 'timeout'):
                    self.second_disagree.append((label, r2))
        elif r == 'sat':
            st['ob_sat'] += 1
            self.refuted.append((label, m, gens))
        else:
            st['ob_unknown'] += 1
        self.steps.append(rec)
        return r

    def all_proved(self, labels=None):
        for s in self.steps:
            if labels is not None and s['step'] not in labels: continue
            if s['verdict'] != 'unsat': return False
        return True


def deriv(t, dvars, cache):
    """formal derivative of the z3 real term t.  dvars: list of
    (variable, derivative-of-variable); any other free symbol is an error."""
    k = t.get_id()
    hit = cache.get(k)
    if hit is not None: return hit[1]
    zero = z3.RealVal(0)
    if z3.is_rational_value(t) or z3.is_int_value(t):
        r = zero
    elif z3.is_const(t):
        r = None
        for v, dv in dvars:
            if v.eq(t): r = dv
        if r is None: raise ValueError('deriv: free symbol %s' % t)
    else:
        kind = t.decl().kind()
        ch = t.children()
        if kind == z3.Z3_OP_ADD:
            r = z3.Sum([deriv(x, dvars, cache) for x in ch])
        elif kind == z3.Z3_OP_SUB:
            r = deriv(ch[0], dvars, cache)
            for x in ch[1:]: r = r - deriv(x, dvars, cache)
        elif kind == z3.Z3_OP_UMINUS:
            r = -deriv(ch[0], dvars, cache)
        elif kind == z3.Z3_OP_MUL:
            terms = []
            for i in range(len(ch)):
                di = deriv(ch[i], dvars, cache)
                if z3.is_rational_value(di) and di.numerator_as_long() == 0: continue
                terms.append(z3.Product([ch[j] for j in range(len(ch)) if j != i] + [di]))
            r = z3.Sum(terms) if terms else zero
        elif kind == z3.Z3_OP_DIV:
            u, v = ch
            du = deriv(u, dvars, cache); dv = deriv(v, dvars, cache)
            r = (du * v - u * dv) / (v * v)
        elif kind == z3.Z3_OP_TO_REAL:
            r = zero
        else:
            raise ValueError('deriv: operator %s' % t.decl())
    cache[k] = (t, r)
    return r


def fr(x):
    """exact rational value of a python float literal, as z3 numeral."""
    return sym.lift_real(x)
