"""Backend-neutral model construction and comparison for C01.

build() creates a t2data object graph through a value *provider*: symbolic
(harness/C01.py) in the check, concrete (harness/replay_C01.py, values taken
from the solver's model) in the replay.  compare() walks two data objects and
reports every compared field to a *comparer*.  No z3 import here."""

FORMATS = [('e', 3), ('e', 4), ('e', 7), ('e', 8), ('e', 13), ('e', 14), ('e', 9), ('f', 7), ('f', 8)]

# ---------------------------------------------------------------------------
# model construction

def build(b, T, G, np_, shape):
    """b: value provider (symbolic in the check, concrete in the replay)"""
    dat = T.t2data()
    aut = shape.get('autough2', False)
    xp = shape.get('xp', False)
    secs = shape['sections']
    dat.title = shape.get('title', 'symbolic model')
    if aut: dat.simulator = 'AUTOUGH2.2EW'
    info = dict(names=[])
    # --- rock types
    nrock = shape.get('nrock', 1)
    rocks = []
    if 'ROCKS' in secs or 'ELEME' in secs:
        for k in range(nrock):
            nad = shape.get('nad', [0])[k % len(shape.get('nad', [0]))]
            vals = b.record('rocks1', skip=('nad',), xp=xp)
            rt = G.rocktype(['dfalt', 'rockb', 'rockc'][k], nad, vals['density'], vals['porosity'],
                            [vals['k1'], vals['k2'], vals['k3']], vals['conductivity'], vals['specific_heat'])
            if nad is not None and nad >= 1:
                v1 = b.record('rocks1.1', xp=xp)
                rt.__dict__.update(v1)
                if nad >= 2:
                    rt.relative_permeability = dict(type=b.int(5), parameters=b.reals(7, 'e', 10, 3, formats=[('e', 15, 8)]))
                    rt.capillarity = dict(type=b.int(5), parameters=b.reals(7, 'e', 10, 3, formats=[('e', 15, 8)]))
            dat.grid.add_rocktype(rt); rocks.append(rt)
    # --- blocks and connections
    nblk = shape.get('nblocks', 0)
    blocks = []
    if 'ELEME' in secs:
        pats = shape.get('name_patterns', ['LLLBD', ' a  1', 'AB1 7', ' b  2'])   # 'AB1 7' is held as 'AB107' after a read
        for k in range(nblk):
            pat = pats[k % len(pats)]
            nm = b.name('bn%d' % k, pat, info['names'])
            info['names'].append(nm)
            vals = b.record('blocks', skip=('nseq', 'nadd'), xp=xp, positive=('volume',))
            centre = None
            if shape.get('centres', True) and k % 2 == 0:
                centre = np_.array([vals['x'], vals['y'], vals['z']])
            blk = G.t2block(nm, vals['volume'], rocks[k % len(rocks)], centre=centre,
                            ahtx=vals['ahtx'] if k % 3 == 0 else None, pmx=vals['pmx'] if k % 3 == 1 else None,
                            nseq=b.int(5, 1) if k == 1 else None, nadd=b.int(5, 1) if k == 1 else None)
            dat.grid.add_block(blk); blocks.append(blk)
        if 'CONNE' in secs:
            for k in range(nblk - 1):
                vals = b.record('connections', skip=('nseq', 'nad1', 'nad2', 'direction'), xp=xp)
                con = G.t2connection([blocks[k], blocks[k + 1]], b.int(5, 1, 3), [vals['distance1'], vals['distance2']],
                                     vals['area'], vals['dircos'], vals['sigma'] if k == 0 else None,
                                     nseq=b.int(5, 1) if k == 0 else None, nad1=b.int(5, 1) if k == 0 else None,
                                     nad2=b.int(5, 1) if k == 0 else None)
                dat.grid.add_connection(con)
    # --- parameters
    if 'PARAM' in secs:
        p = dat.parameter
        p.update(b.record('param1_autough2' if aut else 'param1'))
        p['option'] = np_.array([0] + [b.digit('mop%d' % i) for i in range(1, 25)], dtype=object)
        v2 = b.record('param2', skip=('const_timestep',), positive=())
        p.update(v2)
        nts = shape.get('ntimesteps', 0)
        if nts:
            nlines = (nts + 7) // 8
            p['const_timestep'] = float(-nlines)
            p['timestep'] = b.reals(nts, 'e', 10, 4)
        else:
            cts = b.real('e', 10, 3, nonneg=True)
            p['const_timestep'] = cts
            p['timestep'] = [cts]
        pb = shape.get('print_block')
        if isinstance(pb, str) and pb.startswith('block') and pb[5:].isdigit() and len(info['names']) > int(pb[5:]):
            p['print_block'] = info['names'][int(pb[5:])]
        else: p['print_block'] = None if (isinstance(pb, str) and pb.startswith('block')) else pb
        p.update(b.record('param3'))
        p['default_incons'] = b.reals(shape.get('nincons', 0), 'e', 20, 14)
        # absent values inside the list (never the last entry: a trailing None is not data)
        for i in shape.get('incon_nones', []): p['default_incons'][i] = None
    else:
        # PARAM is always written (the parameter dict is never empty); keep defaults
        pass
    if 'MOMOP' in secs:
        dat.more_option = np_.array([0] + [b.digit('momop%d' % i) for i in range(1, 22)], dtype=object)
        b.some_nonzero(list(dat.more_option[1:]))
    if 'START' in secs: dat.start = True
    if 'NOVER' in secs: dat.noversion = True
    if 'RPCAP' in secs:
        dat.relative_permeability = dict(type=b.int(5), parameters=b.reals(7, 'e', 10, 3, formats=[('e', 15, 8)]))
        dat.capillarity = dict(type=b.int(5), parameters=b.reals(7, 'e', 10, 3, formats=[('e', 15, 8)]))
    if 'LINEQ' in secs: dat.lineq = b.record('lineq')
    if 'SOLVR' in secs:
        dat.solver = b.record('solver')
        dat.solver['z_precond'] = 'Z1'; dat.solver['o_precond'] = 'O0'
    if 'MULTI' in secs:
        dat.multi = b.record('multi_autough2' if aut else 'multi', skip=('num_components', 'num_phases'))
        dat.multi['num_components'] = shape.get('ncomp', 2)
        dat.multi['num_phases'] = shape.get('nphase', 2)
        if aut: dat.multi['eos'] = 'EW'
    if 'TIMES' in secs:
        nt = shape.get('ntimes', 3)
        dat.output_times = b.record('output_times1', skip=('num_times_specified',))
        dat.output_times['num_times_specified'] = nt
        dat.output_times['time'] = b.reals(nt, 'e', 10, 4)
    if 'SELEC' in secs:
        nl = shape.get('nselec_lines', 1)
        dat.selection = dict(integer=[nl] + [b.int(5) for _ in range(15)],
                             float=b.reals(shape.get('nselec', 8 * nl), 'e', 10, 3))
    if 'DIFFU' in secs:
        dat.diffusion = [b.reals(shape.get('nphase', 2), 'e', 10, 3) for _ in range(shape.get('ncomp', 2))]
    if 'MESHM' in secs:
        mk = shape.get('meshmaker', 'xyz')
        if mk == 'xyz':
            sub1 = dict(ntype='NX', no=shape.get('nxyz', 3), **{'del': 0.0})
            sub1['deli'] = b.reals(sub1['no'], 'e', 10, 4)
            d2 = b.real('e', 10, 4, nonzero=True)
            sub2 = dict(ntype='NY', no=b.int(5, 1), **{'del': d2})
            dat.meshmaker.append(('xyz', [b.real('e', 10, 4), sub1, sub2]))
        elif mk == 'rz2d':
            nr, nl = shape.get('nradii', 3), shape.get('nlayers', 3)
            dat.meshmaker.append(('rz2d', [('radii', dict(radii=b.reals(nr, 'e', 10, 4))),
                                           ('equid', dict(nequ=b.int(5, 1), dr=b.real('e', 10, 4))),
                                           ('logar', dict(nlog=b.int(5, 1), rlog=b.real('e', 10, 4), dr=b.real('e', 10, 4))),
                                           ('layer', dict(layer=b.reals(nl, 'e', 10, 4)))]))
        elif mk == 'minc':
            nv = shape.get('nvol', 3)
            dat.meshmaker.append(('minc', dict(type='ONE-D', dual='     ', num_continua=b.int(3, 1), where='OUT ',
                                               spacing=b.reals(7, 'e', 10, 4), vol=b.reals(nv, 'e', 10, 4))))
    # --- generators
    gens = []
    if 'GENER' in secs:
        for k, g in enumerate(shape.get('generators', [dict(ltab=1)])):
            vals = b.record('generator', skip=('nseq', 'nadd', 'nads', 'ltab'), xp=xp)
            lt = g.get('ltab', 1)
            gen = T.t2generator(name=g.get('name', ' ge%2d' % (k + 1)), block=info['names'][g.get('block', 0)] if info['names'] else ' a  1',
                                nseq=b.int(5, 1) if g.get('seq') else None, nadd=b.int(5, 1) if g.get('seq') else None,
                                nads=b.int(5, 1) if g.get('seq') else None,
                                type=g.get('type', 'MASS'), ltab=lt, itab='1' if g.get('enthalpy') else '',
                                gx=vals['gx'], ex=vals['ex'], hg=vals['hg'] if g.get('hg') else None, fg=None)
            if abs(lt) > 1 and gen.type != 'DELV':
                fm = [('e', 15, 8)]
                gen.time = b.reals(abs(lt), 'e', 14, 7, formats=fm)
                gen.rate = b.reals(abs(lt), 'e', 14, 7, formats=fm)
                if g.get('enthalpy'): gen.enthalpy = b.reals(abs(lt), 'e', 14, 7, formats=fm)
            dat.add_generator(gen); gens.append(gen)
    if 'SHORT' in secs:
        dat.short_output = dict(frequency=b.int(2, 1))
        if blocks: dat.short_output['block'] = [blocks[0]]
        if dat.grid.connectionlist: dat.short_output['connection'] = [dat.grid.connectionlist[0]]
        if gens: dat.short_output['generator'] = [gens[0]]
    if 'FOFT' in secs: dat.history_block = [blocks[-1]] if blocks else [' a  1', ' b  2']
    if 'COFT' in secs: dat.history_connection = [dat.grid.connectionlist[0]] if dat.grid.connectionlist else [(' a  1', ' b  2')]
    if 'GOFT' in secs: dat.history_generator = [blocks[0]] if blocks else [' a  1']
    if 'INCON' in secs:
        for k, blk in enumerate(blocks):
            por = b.real('e', 15, 9) if k % 2 == 0 else None
            vs = b.reals(shape.get('nincon_vars', 2), 'e', 20, 14)
            dat.incon[blk.name] = [por, vs] if k != 1 else [por, vs, b.int(5, 1), b.int(5, 1)]
    if 'INDOM' in secs:
        for rt in rocks[:2]:
            dat.indom[rt.name] = b.reals(shape.get('nindom', 3), 'e', 20, 13)
    info.update(rocks=rocks, blocks=blocks, gens=gens, nreal=b.n)
    return dat, info


# ---------------------------------------------------------------------------
# comparison of the written model (a) with a re-read one (b)

def compare(cmp, a, b, shape, exact=False, where=''):
    aut = shape.get('autough2', False)
    R = lambda x, y, w: cmp.real(x, y, where + w, exact)
    cmp.ob(list(a._sections) == list(b._sections), where + 'sections: same sections in the same order %r vs %r' % (a._sections, b._sections))
    cmp.text(a.title, b.title, where + 'title')
    cmp.text(a.simulator, b.simulator, where + 'simulator')
    # rocks
    cmp.ob(len(a.grid.rocktypelist) == len(b.grid.rocktypelist), where + 'rocks: same number of rock types')
    for ra, rb in zip(a.grid.rocktypelist, b.grid.rocktypelist):
        w = where + 'rock %s ' % ra.name
        cmp.text(ra.name, rb.name, w + 'name')
        cmp.int(ra.nad, rb.nad, w + 'nad')
        for f in ('density', 'porosity', 'conductivity', 'specific_heat'): R(getattr(ra, f), getattr(rb, f), w + f)
        cmp.reals(ra.permeability, rb.permeability, w + 'permeability', exact)
        if ra.nad is not None and ra.nad >= 1:
            for f in ('compressibility', 'expansivity', 'dry_conductivity', 'tortuosity'): R(getattr(ra, f), getattr(rb, f), w + f)
            for f in ('klinkenberg', 'xkd3', 'xkd4'): R(ra.__dict__.get(f), rb.__dict__.get(f), w + f)
            if ra.nad >= 2:
                for d in ('relative_permeability', 'capillarity'):
                    da, db = getattr(ra, d), getattr(rb, d)
                    cmp.int(da.get('type'), db.get('type'), w + d + ' type')
                    cmp.reals(da.get('parameters'), db.get('parameters'), w + d + ' parameters', exact)
    # blocks
    cmp.ob(len(a.grid.blocklist) == len(b.grid.blocklist), where + 'blocks: same number of blocks')
    for k, (ba, bb) in enumerate(zip(a.grid.blocklist, b.grid.blocklist)):
        w = where + 'block %d ' % k
        cmp.text(ba.name, bb.name, w + 'name', name=not exact, strip=False)
        cmp.text(ba.rocktype.name, bb.rocktype.name, w + 'rocktype')
        R(ba.volume, bb.volume, w + 'volume'); R(ba.ahtx, bb.ahtx, w + 'ahtx'); R(ba.pmx, bb.pmx, w + 'pmx')
        cmp.int(ba.nseq, bb.nseq, w + 'nseq', True); cmp.int(ba.nadd, bb.nadd, w + 'nadd', True)
        if ba.centre is None or bb.centre is None: cmp.ob(ba.centre is None and bb.centre is None, w + 'centre: absent stays absent')
        else: cmp.reals(ba.centre, bb.centre, w + 'centre', exact)
    cmp.ob(len(a.grid.connectionlist) == len(b.grid.connectionlist), where + 'connections: same number')
    for k, (ca, cb) in enumerate(zip(a.grid.connectionlist, b.grid.connectionlist)):
        w = where + 'connection %d ' % k
        for i in (0, 1): cmp.ob(a.grid.blocklist.index(ca.block[i]) == b.grid.blocklist.index(cb.block[i]), w + 'block %d: joins the same block' % i)
        cmp.int(ca.direction, cb.direction, w + 'direction')
        cmp.reals(ca.distance, cb.distance, w + 'distance', exact)
        R(ca.area, cb.area, w + 'area'); R(ca.dircos, cb.dircos, w + 'dircos'); R(ca.sigma, cb.sigma, w + 'sigma')
        cmp.int(ca.nseq, cb.nseq, w + 'nseq', True); cmp.int(ca.nad1, cb.nad1, w + 'nad1', True); cmp.int(ca.nad2, cb.nad2, w + 'nad2', True)
    # parameters
    pa, pb = a.parameter, b.parameter
    for f in ('max_iterations', 'print_level', 'max_timesteps', 'max_duration', 'print_interval'):
        cmp.int(pa.get(f), pb.get(f), where + 'param ' + f)
    oa, ob_ = list(pa['option']), list(pb['option'])
    cmp.ob(len(oa) == len(ob_), where + 'param option: 25 entries')
    if len(oa) == len(ob_):
        for i in range(1, len(oa)): cmp.int(oa[i], ob_[i], where + 'param option[%d]' % i)
    for f in ('texp', 'be', 'tstart', 'tstop', 'const_timestep', 'max_timestep', 'gravity', 'timestep_reduction', 'scale',
              'relative_error', 'absolute_error', 'pivot', 'upstream_weight', 'newton_weight', 'derivative_increment') + (('diff0',) if aut else ()):
        R(pa.get(f), pb.get(f), where + 'param ' + f)
    if pa.get('print_block') is None or pb.get('print_block') is None:
        cmp.ob(pa.get('print_block') is None and pb.get('print_block') is None, where + 'param print_block: absent stays absent')
    else: cmp.text(pa['print_block'], pb['print_block'], where + 'param print_block', name=not exact, strip=False)
    if len(pa['timestep']) == 0:
        # model built from defaults: with a non-negative constant time step the reader
        # fills the list with that one value (derived data)
        cmp.reals([pa['const_timestep']], pb['timestep'], where + 'param timestep (derived from const_timestep)', exact)
    else: cmp.reals(pa['timestep'], pb['timestep'], where + 'param timestep', exact)
    cmp.reals(pa['default_incons'], pb['default_incons'], where + 'param default_incons', exact)
    ma, mb = list(a.more_option), list(b.more_option)
    cmp.ob(len(ma) == len(mb), where + 'momop: 22 entries')
    if len(ma) == len(mb):
        for i in range(1, len(ma)): cmp.int(ma[i], mb[i], where + 'momop[%d]' % i)
    cmp.ob(bool(a.start) == bool(b.start), where + 'start flag'); cmp.ob(bool(a.noversion) == bool(b.noversion), where + 'noversion flag')
    for d in ('relative_permeability', 'capillarity'):
        da, db = getattr(a, d), getattr(b, d)
        cmp.ob(bool(da) == bool(db), where + 'rpcap %s present' % d)
        if da and db:
            cmp.int(da.get('type'), db.get('type'), where + 'rpcap %s type' % d)
            cmp.reals(da.get('parameters'), db.get('parameters'), where + 'rpcap %s parameters' % d, exact)
    for d, ints, reals, texts in (('lineq', ('type', 'max_iterations', 'gauss', 'num_orthog'), ('epsilon',), ()),
                                  ('solver', ('type',), ('relative_max_iterations', 'closure'), ('z_precond', 'o_precond')),
                                  ('multi', ('num_components', 'num_equations', 'num_phases', 'num_secondary_parameters') + (() if aut else ('num_inc',)), (), ('eos',) if aut else ()),
                                  ('output_times', ('num_times_specified', 'num_times'), ('max_timestep', 'time_increment'), ())):
        da, db = getattr(a, d), getattr(b, d)
        cmp.ob(bool(da) == bool(db), where + '%s present' % d)
        if da and db:
            for f in ints: cmp.int(da.get(f), db.get(f), where + '%s %s' % (d, f))
            for f in reals: R(da.get(f), db.get(f), where + '%s %s' % (d, f))
            for f in texts: cmp.text(da.get(f), db.get(f), where + '%s %s' % (d, f))
    if a.output_times and b.output_times:
        cmp.reals(a.output_times.get('time'), b.output_times.get('time'), where + 'output_times time', exact)
    cmp.ob(bool(a.selection) == bool(b.selection), where + 'selection present')
    if a.selection and b.selection:
        ia, ib = a.selection['integer'], b.selection['integer']
        cmp.ob(len(ia) == len(ib), where + 'selection integer: 16 entries')
        for i, (x, y) in enumerate(zip(ia, ib)): cmp.int(x, y, where + 'selection integer[%d]' % i)
        fa, fb = list(a.selection['float']), list(b.selection['float'])
        # the reader returns whole lines: absent trailing values come back as None
        while fb and fb[-1] is None and len(fb) > len(fa): fb.pop()
        cmp.reals(fa, fb, where + 'selection float', exact)
    cmp.ob(len(a.diffusion) == len(b.diffusion), where + 'diffusion: same number of components')
    for i, (x, y) in enumerate(zip(a.diffusion, b.diffusion)): cmp.reals(x, y, where + 'diffusion[%d]' % i, exact)
    # meshmaker
    cmp.ob(len(a.meshmaker) == len(b.meshmaker), where + 'meshmaker: same number of entries')
    for (ta, sa), (tb, sb) in zip(a.meshmaker, b.meshmaker):
        cmp.ob(ta.lower() == tb.lower(), where + 'meshmaker kind')
        if ta.lower() != tb.lower(): continue
        w = where + 'meshmaker %s ' % ta
        if ta == 'xyz':
            cmp.ob(len(sa) == len(sb), w + 'same number of subsections')
            if len(sa) == len(sb):
                R(sa[0], sb[0], w + 'deg')
                for i, (x, y) in enumerate(zip(sa[1:], sb[1:])):
                    cmp.text(x['ntype'], y['ntype'], w + '%d ntype' % i); cmp.int(x['no'], y['no'], w + '%d no' % i)
                    R(x['del'], y['del'], w + '%d del' % i)
                    if 'deli' in x or 'deli' in y: cmp.reals(x.get('deli'), y.get('deli'), w + '%d deli' % i, exact)
        elif ta == 'rz2d':
            cmp.ob(len(sa) == len(sb), w + 'same number of subsections')
            for (ka, xa), (kb, xb) in zip(sa, sb):
                cmp.ob(ka == kb, w + 'subsection kind')
                if ka != kb: continue
                for f in sorted(xa):
                    if isinstance(xa[f], list): cmp.reals(xa[f], xb.get(f), w + ka + ' ' + f, exact)
                    elif cmp.is_int(xa[f]): cmp.int(xa[f], xb.get(f), w + ka + ' ' + f)
                    else: R(xa[f], xb.get(f), w + ka + ' ' + f)
        elif ta == 'minc':
            cmp.text(sa['type'], sb.get('type'), w + 'type'); cmp.text(sa['dual'], sb.get('dual'), w + 'dual')
            cmp.int(sa['num_continua'], sb.get('num_continua'), w + 'num_continua')
            cmp.text(sa['where'], sb.get('where'), w + 'where')
            cmp.reals(sa['spacing'], sb.get('spacing'), w + 'spacing', exact); cmp.reals(sa['vol'], sb.get('vol'), w + 'vol', exact)
    # generators
    cmp.ob(len(a.generatorlist) == len(b.generatorlist), where + 'generators: same number')
    for k, (ga, gb) in enumerate(zip(a.generatorlist, b.generatorlist)):
        w = where + 'generator %d ' % k
        cmp.text(ga.name, gb.name, w + 'name', name=not exact, strip=False); cmp.text(ga.block, gb.block, w + 'block', name=not exact, strip=False)
        cmp.text(ga.type, gb.type, w + 'type'); cmp.text(ga.itab, gb.itab, w + 'itab')
        cmp.int(ga.ltab, gb.ltab, w + 'ltab')
        for f in ('nseq', 'nadd', 'nads'): cmp.int(getattr(ga, f), getattr(gb, f), w + f)
        for f in ('gx', 'ex', 'hg', 'fg'): R(getattr(ga, f), getattr(gb, f), w + f)
        cmp.reals(ga.time, gb.time, w + 'time', exact); cmp.reals(ga.rate, gb.rate, w + 'rate', exact); cmp.reals(ga.enthalpy, gb.enthalpy, w + 'enthalpy', exact)
        cmp.ob((gb.block, gb.name) in b.generator and b.generator[(gb.block, gb.name)] is gb, w + 'lookup: found under (block, name)')
    # short output / history
    cmp.ob(bool(a.short_output) == bool(b.short_output), where + 'short output present')
    if a.short_output and b.short_output:
        cmp.int(a.short_output.get('frequency'), b.short_output.get('frequency'), where + 'short frequency')
        for key, lst_a, lst_b in (('block', a.grid.blocklist, b.grid.blocklist), ('connection', a.grid.connectionlist, b.grid.connectionlist),
                                  ('generator', a.generatorlist, b.generatorlist)):
            xa, xb = a.short_output.get(key), b.short_output.get(key)
            cmp.ob((xa is None) == (xb is None), where + 'short %s list present' % key)
            if xa is not None and xb is not None:
                cmp.ob([lst_a.index(x) for x in xa] == [lst_b.index(x) for x in xb], where + 'short %s: same items' % key)
    for attr, kind in (('history_block', 'block'), ('history_connection', 'connection'), ('history_generator', 'block')):
        xa, xb = getattr(a, attr), getattr(b, attr)
        cmp.ob(len(xa) == len(xb), where + '%s: same number' % attr)
        for x, y in zip(xa, xb):
            if cmp.is_text(x) or isinstance(x, tuple):
                xs, ys = (x if isinstance(x, tuple) else (x,)), (y if isinstance(y, tuple) else (y,))
                cmp.ob(len(xs) == len(ys) and not hasattr(y, 'volume'), where + '%s: bare names stay bare names' % attr)
                for p_, q_ in zip(xs, ys):
                    if cmp.is_text(q_): cmp.text(p_, q_, where + '%s name' % attr, name=not exact, strip=False)
            elif kind == 'block':
                cmp.ob(y in b.grid.blocklist and a.grid.blocklist.index(x) == b.grid.blocklist.index(y), where + '%s: same block' % attr)
            else:
                cmp.ob(y in b.grid.connectionlist and a.grid.connectionlist.index(x) == b.grid.connectionlist.index(y), where + '%s: same connection' % attr)
    # incons
    cmp.ob(len(a.incon) == len(b.incon), where + 'incon: same number of blocks')
    for k, ba in enumerate(a.grid.blocklist):
        if k >= len(b.grid.blocklist): break
        ia = a.incon.get(ba.name) if a.incon else None
        bbname = b.grid.blocklist[k].name
        ib = b.incon.get(bbname) if b.incon else None
        if ia is None or ib is None:
            cmp.ob(ia is None and ib is None, where + 'incon block %d present in both' % k); continue
        R(ia[0], ib[0], where + 'incon %d porosity' % k); cmp.reals(ia[1], ib[1], where + 'incon %d variables' % k, exact)
        cmp.ob(len(ia) == len(ib), where + 'incon %d: sequence numbers present in both' % k)
        if len(ia) == len(ib) and len(ia) >= 4:
            cmp.int(ia[2], ib[2], where + 'incon %d nseq' % k); cmp.int(ia[3], ib[3], where + 'incon %d nadd' % k)
    cmp.ob(len(a.indom) == len(b.indom) and list(a.indom) == list(b.indom), where + 'indom: same rock types')
    for k in a.indom:
        if k in b.indom: cmp.reals(a.indom[k], b.indom[k], where + 'indom %s' % k, exact)
    cmp.ob(a.end_keyword == b.end_keyword, where + 'end keyword')


