"""Backend-neutral model construction and comparison for C01.

build() creates a t2data object graph through a value *provider*: symbolic
(harness/C01.py) in the check, concrete (harness/replay_C01.py, values taken
from the solver's model) in the replay.  compare() walks two data objects and
reports every compared field to a *comparer*.  No z3 import here."""

FORMATS = [('e', 3), ('e', 4), ('e', 7), ('e', 8), ('e', 13), ('e', 14), ('e', 9), ('f', 7), ('f', 8)]

# ---------------------------------------------------------------------------
# model construction

def build(b, T, G, np_, shape):
    """b: value provider (symbolic in the check, concrete in the replay)"""
    dat = T.t2data()
    aut = shape.get('autough2', False)
    xp = shape.get('xp', False)
    secs = shape['sections']
    dat.title = shape.get('title', 'symbolic model')
    if aut: dat.simulator = 'AUTOUGH2.2EW'
    info = dict(names=[])
    # --- rock types
    nrock = shape.get('nrock', 1)
    rocks = []
    if 'ROCKS' in secs or 'ELEME' in secs:
        for k in range(nrock):
            nad = shape.get('nad', [0])[k % len(shape.get('nad', [0]))]
            vals = masked(shape, b.record('rocks1', skip=('nad',), xp=xp))
            rt = G.rocktype(shape.get('rock_names', ['dfalt', 'rockb', 'rockc'])[k], nad, vals['density'], vals['porosity'],
                            [vals['k1'], vals['k2'], vals['k3']], vals['conductivity'], vals['specific_heat'])
            if nad is not None and nad >= 1:
                v1 = masked(shape, b.record('rocks1.1', xp=xp))
                rt.__dict__.update(v1)
                if nad >= 2:
                    rt.relative_permeability = dict(type=b.int(5), parameters=b.reals(7, 'e', 10, 3, formats=[('e', 15, 8)]))
                    rt.capillarity = dict(type=b.int(5), parameters=b.reals(7, 'e', 10, 3, formats=[('e', 15, 8)]))
            dat.grid.add_rocktype(rt); rocks.append(rt)
    # --- blocks and connections
    nblk = shape.get('nblocks', 0)
    blocks = []
    if 'ELEME' in secs:
        pats = shape.get('name_patterns', ['LLLBD', ' a  1', 'AB1 7', ' b  2'])   # 'AB1 7' is held as 'AB107' after a read
        for k in range(nblk):
            pat = pats[k % len(pats)]
            nm = b.name('bn%d' % k, pat, info['names'])
            info['names'].append(nm)
            vals = masked(shape, b.record('blocks', skip=('nseq', 'nadd'), xp=xp, positive=('volume',)), keep=('x', 'y', 'z'))
            centre = None
            if shape.get('centres', True) and k % 2 == 0:
                centre = np_.array([vals['x'], vals['y'], vals['z']])
            blk = G.t2block(nm, vals['volume'], rocks[k % len(rocks)], centre=centre,
                            ahtx=vals['ahtx'] if k % 3 == 0 else None, pmx=vals['pmx'] if k % 3 == 1 else None,
                            nseq=b.int(5, 1) if k == 1 else None, nadd=b.int(5, 1) if k == 1 else None)
            dat.grid.add_block(blk); blocks.append(blk)
        if 'CONNE' in secs:
            for k in range(nblk - 1):
                vals = masked(shape, b.record('connections', skip=('nseq', 'nad1', 'nad2', 'direction'), xp=xp))
                con = G.t2connection([blocks[k], blocks[k + 1]], b.int(5, 1, 3), [vals['distance1'], vals['distance2']],
                                     vals['area'], vals['dircos'], vals['sigma'] if k == 0 else None,
                                     nseq=b.int(5, 1) if k == 0 else None, nad1=b.int(5, 1) if k == 0 else None,
                                     nad2=b.int(5, 1) if k == 0 else None)
                dat.grid.add_connection(con)
    info.update(rocks=rocks, blocks=blocks)
    add_sections(b, T, G, np_, dat, shape, secs, info)
    info.update(gens=list(dat.generatorlist), nreal=b.n)
    return dat, info


def grid_info(dat):
    """info record of an existing (e.g. re-read) data object, for add_sections"""
    return dict(names=[blk.name for blk in dat.grid.blocklist], rocks=list(dat.grid.rocktypelist),
                blocks=list(dat.grid.blocklist))


def masked(shape, vals, keep=()):
    """'None / blank in every optional field': with shape['nones'] = 'even' / 'odd' every second
    field of a record is absent (the two masks together make every field absent once); the other
    fields keep their symbolic values.  Fields in keep are structural (they decide how many lines
    follow) or are handled as a group (block centre)."""
    m = shape.get('nones')
    if not m: return vals
    par = 0 if m == 'even' else 1
    out = {}
    for i, k in enumerate(vals):
        out[k] = None if (i % 2 == par and k not in keep) else vals[k]
    return out


def add_sections(b, T, G, np_, dat, shape, secs, info):
    """data of the section kinds in secs (other than ROCKS / ELEME / CONNE) put into dat"""
    aut = shape.get('autough2', False)
    xp = shape.get('xp', False)
    rocks, blocks = info['rocks'], info['blocks']
    M = lambda vals, keep=(): masked(shape, vals, keep)
    # --- parameters
    if 'PARAM' in secs:
        p = dat.parameter
        p.update(M(b.record('param1_autough2' if aut else 'param1')))
        p['option'] = np_.array([0] + [b.digit('mop%d' % i) for i in range(1, 25)], dtype=object)
        v2 = M(b.record('param2', skip=('const_timestep',), positive=()))
        p.update(v2)
        nts = shape.get('ntimesteps', 0)
        if nts:
            nlines = (nts + 7) // 8
            p['const_timestep'] = float(-nlines)
            p['timestep'] = b.reals(nts, 'e', 10, 4)
            if shape.get('arrays'): p['timestep'] = np_.array(p['timestep'])
        elif shape.get('const_timestep_none'):
            # DELTEN left blank (the simulator takes 0: no time step lines follow)
            p['const_timestep'] = None
            p['timestep'] = []
        else:
            cts = b.real('e', 10, 3, nonneg=True)
            p['const_timestep'] = cts
            p['timestep'] = [cts]
        pb = shape.get('print_block')
        if isinstance(pb, str) and pb.startswith('block') and pb[5:].isdigit() and len(info['names']) > int(pb[5:]):
            p['print_block'] = info['names'][int(pb[5:])]
        else: p['print_block'] = None if (isinstance(pb, str) and pb.startswith('block')) else pb
        p.update(M(b.record('param3')))
        p['default_incons'] = b.reals(shape.get('nincons', 0), 'e', 20, 14)
        # absent values inside the list (never the last entry: a trailing None is not data)
        for i in shape.get('incon_nones', []): p['default_incons'][i] = None
    else:
        # PARAM is always written (the parameter dict is never empty); keep defaults
        pass
    if 'MOMOP' in secs:
        dat.more_option = np_.array([0] + [b.digit('momop%d' % i) for i in range(1, 22)], dtype=object)
        b.some_nonzero(list(dat.more_option[1:]))
    if 'START' in secs: dat.start = True
    if 'NOVER' in secs: dat.noversion = True
    if 'RPCAP' in secs:
        dat.relative_permeability = dict(type=b.int(5), parameters=b.reals(7, 'e', 10, 3, formats=[('e', 15, 8)]))
        dat.capillarity = dict(type=b.int(5), parameters=b.reals(7, 'e', 10, 3, formats=[('e', 15, 8)]))
    if 'LINEQ' in secs: dat.lineq = M(b.record('lineq'))
    if 'SOLVR' in secs:
        dat.solver = M(b.record('solver'))
        dat.solver['z_precond'] = 'Z1'; dat.solver['o_precond'] = 'O0'
    if 'MULTI' in secs:
        dat.multi = M(b.record('multi_autough2' if aut else 'multi', skip=('num_components', 'num_phases')))
        dat.multi['num_components'] = shape.get('ncomp', 2)
        dat.multi['num_phases'] = shape.get('nphase', 2)
        if aut: dat.multi['eos'] = 'EW'
    if 'TIMES' in secs:
        nt = shape.get('ntimes', 3)
        dat.output_times = M(b.record('output_times1', skip=('num_times_specified',)))
        dat.output_times['num_times_specified'] = nt
        dat.output_times['time'] = b.reals(nt, 'e', 10, 4)
        if shape.get('arrays'): dat.output_times['time'] = np_.array(dat.output_times['time'])
    if 'SELEC' in secs:
        nl = shape.get('nselec_lines', 1)
        dat.selection = dict(integer=[None if shape.get('selec_count_none') else nl] + [b.int(5) for _ in range(15)],
                             float=b.reals(shape.get('nselec', 8 * nl), 'e', 10, 3))
    if 'DIFFU' in secs:
        dat.diffusion = [b.reals(shape.get('nphase', 2), 'e', 10, 3) for _ in range(shape.get('ncomp', 2))]
    if 'MESHM' in secs:
        mk = shape.get('meshmaker', 'xyz')
        if mk == 'xyz':
            # DEL blank is DEL = 0 for the simulator: the NO increments follow
            sub1 = dict(ntype='NX', no=shape.get('nxyz', 3), **{'del': None if (shape.get('nones') or shape.get('xyz_del_none')) else 0.0})
            sub1['deli'] = b.reals(sub1['no'], 'e', 10, 4)
            d2 = b.real('e', 10, 4, nonzero=True)
            sub2 = dict(ntype='NY', no=b.int(5, 1), **{'del': d2})
            deg = b.real('e', 10, 4)
            dat.meshmaker.append(('xyz', [None if shape.get('nones') == 'even' else deg, sub1, sub2]))
        elif mk == 'rz2d':
            nr, nl = shape.get('nradii', 3), shape.get('nlayers', 3)
            dat.meshmaker.append(('rz2d', [('radii', dict(radii=b.reals(nr, 'e', 10, 4))),
                                           ('equid', dict(nequ=b.int(5, 1), dr=b.real('e', 10, 4))),
                                           ('logar', dict(nlog=b.int(5, 1), rlog=b.real('e', 10, 4), dr=b.real('e', 10, 4))),
                                           ('layer', dict(layer=b.reals(nl, 'e', 10, 4)))]))
        elif mk == 'minc':
            nv = shape.get('nvol', 3)
            dual = b.name('dual', shape['dual_pattern'], []) if shape.get('dual_pattern') else '     '
            dat.meshmaker.append(('minc', dict(type='ONE-D', dual=dual, num_continua=b.int(3, 1), where='OUT ',
                                               spacing=b.reals(7, 'e', 10, 4), vol=b.reals(nv, 'e', 10, 4))))
    # --- generators
    gens = list(dat.generatorlist)
    if 'GENER' in secs:
        for k, g in enumerate(shape.get('generators', [dict(ltab=1)])):
            vals = M(b.record('generator', skip=('nseq', 'nadd', 'nads', 'ltab'), xp=xp))
            lt = g.get('ltab', 1)
            gen = T.t2generator(name=g.get('name', ' ge%2d' % (len(gens) + 1)), block=info['names'][g.get('block', 0)] if info['names'] else ' a  1',
                                nseq=b.int(5, 1) if g.get('seq') else None, nadd=b.int(5, 1) if g.get('seq') else None,
                                nads=b.int(5, 1) if g.get('seq') else None,
                                type=g.get('type', 'MASS'), ltab=lt, itab='1' if g.get('enthalpy') else '',
                                gx=vals['gx'], ex=vals['ex'], hg=vals['hg'] if g.get('hg') else None, fg=None)
            if abs(lt) > 1 and gen.type != 'DELV':
                fm = [('e', 15, 8)]
                gen.time = b.reals(abs(lt), 'e', 14, 7, formats=fm)
                gen.rate = b.reals(abs(lt), 'e', 14, 7, formats=fm)
                if g.get('enthalpy'): gen.enthalpy = b.reals(abs(lt), 'e', 14, 7, formats=fm)
            dat.add_generator(gen); gens.append(gen)
    if 'SHORT' in secs:
        dat.short_output = dict(frequency=b.int(2, shape.get('short_freq_lo', 1)))   # 0 is printed as blank
        if blocks: dat.short_output['block'] = [blocks[0]]
        if dat.grid.connectionlist: dat.short_output['connection'] = [dat.grid.connectionlist[0]]
        if gens: dat.short_output['generator'] = [gens[0]]
    if 'FOFT' in secs: dat.history_block = [blocks[-1]] if blocks else [' a  1', ' b  2']
    if 'COFT' in secs: dat.history_connection = [dat.grid.connectionlist[0]] if dat.grid.connectionlist else [(' a  1', ' b  2')]
    if 'GOFT' in secs: dat.history_generator = [blocks[0]] if blocks else [' a  1']
    if 'INCON' in secs:
        # without blocks (mesh made by MESHMAKER, or held in a MESH file that is not given): initial
        # conditions by block name
        for k, nm in enumerate([blk.name for blk in blocks] if blocks else [' a  1', ' b  2']):
            por = b.real('e', 15, 9) if k % 2 == 0 else None
            vs = b.reals(shape.get('nincon_vars', 2), 'e', 20, 14)
            dat.incon[nm] = [por, vs] if k != 1 else [por, vs, b.int(5, 1), b.int(5, 1)]
    if 'INDOM' in secs:
        for rt in rocks[:2]:
            dat.indom[rt.name] = b.reals(shape.get('nindom', 3), 'e', 20, 13)
        if not rocks: dat.indom['dfalt'] = b.reals(shape.get('nindom', 3), 'e', 20, 13)


# ---------------------------------------------------------------------------
# comparison of the written model (a) with a re-read one (b)

def compare(cmp, a, b, shape, exact=False, where=''):
    aut = shape.get('autough2', False)
    # a field left None whose default in the object is a number (0.0) is the default: that is what is read back
    R = lambda x, y, w, dflt=None: cmp.real(dflt if (x is None and dflt is not None) else x, y, where + w, exact)
    cmp.ob(list(a._sections) == list(b._sections), where + 'sections: same sections in the same order %r vs %r' % (a._sections, b._sections))
    for s in sorted(set(a._sections) ^ set(b._sections)):
        cmp.ob(False, where + 'sections %s: %s' % (s, 'lost' if s in a._sections else 'added'))
    cmp.text(a.title, b.title, where + 'title')
    cmp.text(a.simulator, b.simulator, where + 'simulator')
    # rocks
    cmp.ob(len(a.grid.rocktypelist) == len(b.grid.rocktypelist), where + 'rocks: same number of rock types')
    for ra, rb in zip(a.grid.rocktypelist, b.grid.rocktypelist):
        w = where + 'rock %s ' % ra.name
        cmp.text(ra.name, rb.name, w + 'name', strip='both')   # a name shorter than its field is padded
        cmp.int(ra.nad, rb.nad, w + 'nad')
        for f in ('density', 'porosity', 'conductivity', 'specific_heat'): R(getattr(ra, f), getattr(rb, f), w + f)
        cmp.reals(ra.permeability, rb.permeability, w + 'permeability', exact)
        if ra.nad is not None and ra.nad >= 1:
            for f in ('compressibility', 'expansivity', 'dry_conductivity', 'tortuosity'): R(ra.__dict__.get(f), rb.__dict__.get(f), w + f, 0.0)
            for f in ('klinkenberg', 'xkd3', 'xkd4'): R(ra.__dict__.get(f), rb.__dict__.get(f), w + f)
            if ra.nad >= 2:
                for d in ('relative_permeability', 'capillarity'):
                    da, db = getattr(ra, d), getattr(rb, d)
                    cmp.int(da.get('type'), db.get('type'), w + d + ' type')
                    cmp.reals(da.get('parameters'), db.get('parameters'), w + d + ' parameters', exact)
    # blocks
    cmp.ob(len(a.grid.blocklist) == len(b.grid.blocklist), where + 'blocks: same number of blocks')
    for k, (ba, bb) in enumerate(zip(a.grid.blocklist, b.grid.blocklist)):
        w = where + 'block %d ' % k
        cmp.text(ba.name, bb.name, w + 'name', name=not exact, strip=False)
        cmp.text(ba.rocktype.name, bb.rocktype.name, w + 'rocktype', strip='both')
        R(ba.volume, bb.volume, w + 'volume'); R(ba.ahtx, bb.ahtx, w + 'ahtx'); R(ba.pmx, bb.pmx, w + 'pmx')
        cmp.int(ba.nseq, bb.nseq, w + 'nseq', True); cmp.int(ba.nadd, bb.nadd, w + 'nadd', True)
        if ba.centre is None or bb.centre is None: cmp.ob(ba.centre is None and bb.centre is None, w + 'centre: absent stays absent')
        else: cmp.reals(ba.centre, bb.centre, w + 'centre', exact)
    cmp.ob(len(a.grid.connectionlist) == len(b.grid.connectionlist), where + 'connections: same number')
    for k, (ca, cb) in enumerate(zip(a.grid.connectionlist, b.grid.connectionlist)):
        w = where + 'connection %d ' % k
        for i in (0, 1): cmp.ob(a.grid.blocklist.index(ca.block[i]) == b.grid.blocklist.index(cb.block[i]), w + 'block %d: joins the same block' % i)
        cmp.int(ca.direction, cb.direction, w + 'direction')
        cmp.reals(ca.distance, cb.distance, w + 'distance', exact)
        R(ca.area, cb.area, w + 'area'); R(ca.dircos, cb.dircos, w + 'dircos'); R(ca.sigma, cb.sigma, w + 'sigma')
        cmp.int(ca.nseq, cb.nseq, w + 'nseq', True); cmp.int(ca.nad1, cb.nad1, w + 'nad1', True); cmp.int(ca.nad2, cb.nad2, w + 'nad2', True)
    # parameters
    pa, pb = a.parameter, b.parameter
    for f in ('max_iterations', 'print_level', 'max_timesteps', 'max_duration', 'print_interval'):
        cmp.int(pa.get(f), pb.get(f), where + 'param ' + f)
    oa, ob_ = list(pa['option']), list(pb['option'])
    cmp.ob(len(oa) == len(ob_), where + 'param option: 25 entries')
    if len(oa) == len(ob_):
        for i in range(1, len(oa)): cmp.int(oa[i], ob_[i], where + 'param option[%d]' % i)
    for f in ('texp', 'be', 'tstart', 'tstop', 'const_timestep', 'max_timestep', 'gravity', 'timestep_reduction', 'scale',
              'relative_error', 'absolute_error', 'pivot', 'upstream_weight', 'newton_weight', 'derivative_increment') + (('diff0',) if aut else ()):
        R(pa.get(f), pb.get(f), where + 'param ' + f, 0.0 if f in ('tstart', 'const_timestep', 'gravity') else None)
    if pa.get('print_block') is None or pb.get('print_block') is None:
        cmp.ob(pa.get('print_block') is None and pb.get('print_block') is None, where + 'param print_block: absent stays absent')
    else: cmp.text(pa['print_block'], pb['print_block'], where + 'param print_block', name=not exact, strip=False)
    if len(pa['timestep']) == 0:
        # model built from defaults: with a non-negative constant time step the reader
        # fills the list with that one value (derived data)
        cmp.reals([0.0 if pa['const_timestep'] is None else pa['const_timestep']], pb['timestep'], where + 'param timestep (derived from const_timestep)', exact)
    else: cmp.reals(pa['timestep'], pb['timestep'], where + 'param timestep', exact)
    cmp.reals(pa['default_incons'], pb['default_incons'], where + 'param default_incons', exact)
    ma, mb = list(a.more_option), list(b.more_option)
    cmp.ob(len(ma) == len(mb), where + 'momop: 22 entries')
    if len(ma) == len(mb):
        for i in range(1, len(ma)): cmp.int(ma[i], mb[i], where + 'momop[%d]' % i)
    cmp.ob(bool(a.start) == bool(b.start), where + 'start flag'); cmp.ob(bool(a.noversion) == bool(b.noversion), where + 'noversion flag')
    for d in ('relative_permeability', 'capillarity'):
        da, db = getattr(a, d), getattr(b, d)
        cmp.ob(bool(da) == bool(db), where + 'rpcap %s present' % d)
        if da and db:
            cmp.int(da.get('type'), db.get('type'), where + 'rpcap %s type' % d)
            cmp.reals(da.get('parameters'), db.get('parameters'), where + 'rpcap %s parameters' % d, exact)
    for d, ints, reals, texts in (('lineq', ('type', 'max_iterations', 'gauss', 'num_orthog'), ('epsilon',), ()),
                                  ('solver', ('type',), ('relative_max_iterations', 'closure'), ('z_precond', 'o_precond')),
                                  ('multi', ('num_components', 'num_equations', 'num_phases', 'num_secondary_parameters') + (() if aut else ('num_inc',)), (), ('eos',) if aut else ()),
                                  ('output_times', ('num_times_specified', 'num_times'), ('max_timestep', 'time_increment'), ())):
        da, db = getattr(a, d), getattr(b, d)
        cmp.ob(bool(da) == bool(db), where + '%s present' % d)
        if da and db:
            for f in ints: cmp.int(da.get(f), db.get(f), where + '%s %s' % (d, f))
            for f in reals: R(da.get(f), db.get(f), where + '%s %s' % (d, f))
            for f in texts: cmp.text(da.get(f), db.get(f), where + '%s %s' % (d, f))
    if a.output_times and b.output_times:
        cmp.reals(a.output_times.get('time'), b.output_times.get('time'), where + 'output_times time', exact)
    cmp.ob(bool(a.selection) == bool(b.selection), where + 'selection present')
    if a.selection and b.selection:
        ia, ib = a.selection['integer'], b.selection['integer']
        cmp.ob(len(ia) == len(ib), where + 'selection integer: 16 entries')
        for i, (x, y) in enumerate(zip(ia, ib)): cmp.int(x, y, where + 'selection integer[%d]' % i)
        fa, fb = list(a.selection['float']), list(b.selection['float'])
        # the reader returns whole lines: absent trailing values come back as None
        while fb and fb[-1] is None and len(fb) > len(fa): fb.pop()
        cmp.reals(fa, fb, where + 'selection float', exact)
    cmp.ob(len(a.diffusion) == len(b.diffusion), where + 'diffusion: same number of components')
    for i, (x, y) in enumerate(zip(a.diffusion, b.diffusion)): cmp.reals(x, y, where + 'diffusion[%d]' % i, exact)
    # meshmaker
    cmp.ob(len(a.meshmaker) == len(b.meshmaker), where + 'meshmaker: same number of entries')
    for (ta, sa), (tb, sb) in zip(a.meshmaker, b.meshmaker):
        cmp.ob(ta.lower() == tb.lower(), where + 'meshmaker kind')
        if ta.lower() != tb.lower(): continue
        w = where + 'meshmaker %s ' % ta
        if ta == 'xyz':
            cmp.ob(len(sa) == len(sb), w + 'same number of subsections')
            if len(sa) == len(sb):
                R(sa[0], sb[0], w + 'deg')
                for i, (x, y) in enumerate(zip(sa[1:], sb[1:])):
                    cmp.text(x['ntype'], y['ntype'], w + '%d ntype' % i); cmp.int(x['no'], y['no'], w + '%d no' % i)
                    R(x['del'], y['del'], w + '%d del' % i)
                    if 'deli' in x or 'deli' in y: cmp.reals(x.get('deli'), y.get('deli'), w + '%d deli' % i, exact)
        elif ta == 'rz2d':
            cmp.ob(len(sa) == len(sb), w + 'same number of subsections')
            for (ka, xa), (kb, xb) in zip(sa, sb):
                cmp.ob(ka == kb, w + 'subsection kind')
                if ka != kb: continue
                for f in sorted(xa):
                    if isinstance(xa[f], list): cmp.reals(xa[f], xb.get(f), w + ka + ' ' + f, exact)
                    elif cmp.is_int(xa[f]): cmp.int(xa[f], xb.get(f), w + ka + ' ' + f)
                    else: R(xa[f], xb.get(f), w + ka + ' ' + f)
        elif ta == 'minc':
            cmp.text(sa['type'], sb.get('type'), w + 'type'); cmp.text(sa['dual'], sb.get('dual'), w + 'dual')
            cmp.int(sa['num_continua'], sb.get('num_continua'), w + 'num_continua')
            cmp.text(sa['where'], sb.get('where'), w + 'where')
            cmp.reals(sa['spacing'], sb.get('spacing'), w + 'spacing', exact); cmp.reals(sa['vol'], sb.get('vol'), w + 'vol', exact)
    # generators
    cmp.ob(len(a.generatorlist) == len(b.generatorlist), where + 'generators: same number')
    for k, (ga, gb) in enumerate(zip(a.generatorlist, b.generatorlist)):
        w = where + 'generator %d ' % k
        cmp.text(ga.name, gb.name, w + 'name', name=not exact, strip=False); cmp.text(ga.block, gb.block, w + 'block', name=not exact, strip=False)
        cmp.text(ga.type, gb.type, w + 'type'); cmp.text(ga.itab, gb.itab, w + 'itab')
        cmp.int(ga.ltab, gb.ltab, w + 'ltab')
        for f in ('nseq', 'nadd', 'nads'): cmp.int(getattr(ga, f), getattr(gb, f), w + f)
        for f in ('gx', 'ex', 'hg', 'fg'): R(getattr(ga, f), getattr(gb, f), w + f)
        cmp.reals(ga.time, gb.time, w + 'time', exact); cmp.reals(ga.rate, gb.rate, w + 'rate', exact); cmp.reals(ga.enthalpy, gb.enthalpy, w + 'enthalpy', exact)
        cmp.ob((gb.block, gb.name) in b.generator and b.generator[(gb.block, gb.name)] is gb, w + 'lookup: found under (block, name)')
    # short output / history
    cmp.ob(bool(a.short_output) == bool(b.short_output), where + 'short output present')
    if a.short_output and b.short_output:
        cmp.int(a.short_output.get('frequency'), b.short_output.get('frequency'), where + 'short frequency', True)   # 0 is printed as blank
        for key, lst_a, lst_b in (('block', a.grid.blocklist, b.grid.blocklist), ('connection', a.grid.connectionlist, b.grid.connectionlist),
                                  ('generator', a.generatorlist, b.generatorlist)):
            xa, xb = a.short_output.get(key), b.short_output.get(key)
            cmp.ob((xa is None) == (xb is None), where + 'short %s list present' % key)
            if xa is not None and xb is not None:
                cmp.ob([lst_a.index(x) for x in xa] == [lst_b.index(x) for x in xb], where + 'short %s: same items' % key)
    for attr, kind in (('history_block', 'block'), ('history_connection', 'connection'), ('history_generator', 'block')):
        xa, xb = getattr(a, attr), getattr(b, attr)
        cmp.ob(len(xa) == len(xb), where + '%s: same number' % attr)
        for x, y in zip(xa, xb):
            if cmp.is_text(x) or isinstance(x, tuple):
                xs, ys = (x if isinstance(x, tuple) else (x,)), (y if isinstance(y, tuple) else (y,))
                cmp.ob(len(xs) == len(ys) and not hasattr(y, 'volume'), where + '%s: bare names stay bare names' % attr)
                for p_, q_ in zip(xs, ys):
                    if cmp.is_text(q_): cmp.text(p_, q_, where + '%s name' % attr, name=not exact, strip=False)
            elif kind == 'block':
                cmp.ob(y in b.grid.blocklist and a.grid.blocklist.index(x) == b.grid.blocklist.index(y), where + '%s: same block' % attr)
            else:
                cmp.ob(y in b.grid.connectionlist and a.grid.connectionlist.index(x) == b.grid.connectionlist.index(y), where + '%s: same connection' % attr)
    # incons
    cmp.ob(len(a.incon) == len(b.incon), where + 'incon: same number of blocks')
    if a.grid.blocklist: pairs = [(ba.name, b.grid.blocklist[k].name) for k, ba in enumerate(a.grid.blocklist) if k < len(b.grid.blocklist)]
    else:
        # no blocks: entries by name, in the order held
        pairs = list(zip(list(a.incon), list(b.incon)))
        for na, nb in pairs: cmp.text(na, nb, where + 'incon block name', name=not exact, strip=False)
    for k, (na, nb) in enumerate(pairs):
        ia = a.incon.get(na) if a.incon else None
        ib = b.incon.get(nb) if b.incon else None
        if ia is None or ib is None:
            cmp.ob(ia is None and ib is None, where + 'incon block %d present in both' % k); continue
        R(ia[0], ib[0], where + 'incon %d porosity' % k); cmp.reals(ia[1], ib[1], where + 'incon %d variables' % k, exact)
        cmp.ob(len(ia) == len(ib), where + 'incon %d: sequence numbers present in both' % k)
        if len(ia) == len(ib) and len(ia) >= 4:
            cmp.int(ia[2], ib[2], where + 'incon %d nseq' % k); cmp.int(ia[3], ib[3], where + 'incon %d nadd' % k)
    cmp.ob(len(a.indom) == len(b.indom), where + 'indom: same number of rock types')
    for i, (ka, kb) in enumerate(zip(list(a.indom), list(b.indom))):
        cmp.text(ka, kb, where + 'indom %d rock name' % i, strip='both')
        cmp.reals(a.indom[ka], b.indom[kb], where + 'indom %d' % i, exact)
    cmp.ob(a.end_keyword == b.end_keyword, where + 'end keyword')


# ---------------------------------------------------------------------------
# records of an independent Fortran-style writer (D exponents, E/F edit descriptors, blanks for
# fields not given).  dig(name, n, first_nonzero) gives n digit cells, dig.sign(name) a sign cell
# (blank or '-'): symbolic cells in the check, characters in the replay.

def _freal(dig, out, name, w, nd, exp, signed=False, letter='D'):
    m = dig(name, nd, True)
    cells = ['0', '.'] + list(m) + [letter] + list('%+03d' % exp)
    s = None
    if signed:
        s = dig.sign(name + '.s'); cells = [s] + cells
    assert len(cells) <= w, (name, w)
    out[name] = dict(sign=s, digits=list(m), exp=exp - nd)
    return [' '] * (w - len(cells)) + cells

def _ffix(dig, out, name, w, nd, signed=True):
    """Fw.d-style field 0.ddddddd"""
    m = dig(name, nd, False)
    s = dig.sign(name + '.s') if signed else ' '
    cells = [s, '0', '.'] + list(m)
    out[name] = dict(sign=s if signed else None, digits=list(m), exp=-nd)
    return [' '] * (w - len(cells)) + cells

def _fint(dig, out, name, w, nd):
    m = dig(name, nd, True)
    out[name] = dict(sign=None, digits=list(m), exp=0, integer=True)
    return [' '] * (w - nd) + list(m)

def fortran_files(dig, shape):
    """(files, values, getters): lines of a small model as a Fortran program would print them (main
    file 'f.dat', and 'FMESH' when shape['meshfile']); values[name] = digits / sign / exponent of each
    number printed; getters[name](dat) = the field of a data object that has to hold it."""
    V, Gt = {}, {}
    blank = lambda n: [' '] * n
    L = lambda *parts: [c for p in parts for c in (list(p) if isinstance(p, str) else p)] + ['\n']
    main, mesh = [], []
    main.append(L('fortran-style model'))
    main.append(L('ROCKS'))
    main.append(L('SAND ', blank(5), _freal(dig, V, 'density', 10, 4, 4), _freal(dig, V, 'porosity', 10, 4, 0),
                  _freal(dig, V, 'k1', 10, 4, -12), _freal(dig, V, 'k2', 10, 4, -12), _freal(dig, V, 'k3', 10, 4, -13),
                  _freal(dig, V, 'conductivity', 10, 4, 1), _freal(dig, V, 'specific_heat', 10, 4, 4, letter='E')))
    main.append(L(''))
    rk = lambda d: d.grid.rocktypelist[0]
    for f in ('density', 'porosity', 'conductivity', 'specific_heat'): Gt[f] = (lambda f: lambda d: getattr(rk(d), f))(f)
    for i in range(3): Gt['k%d' % (i + 1)] = (lambda i: lambda d: rk(d).permeability[i])(i)
    main.append(L('PARAM'))
    main.append(L(blank(2), ' 2', _fint(dig, V, 'max_timesteps', 4, 2), blank(4), _fint(dig, V, 'print_interval', 4, 2), '1' + '0' * 23))
    main.append(L(blank(10), _freal(dig, V, 'tstop', 10, 3, 10), _freal(dig, V, 'const_timestep', 10, 3, 4), blank(10), blank(10),
                  _freal(dig, V, 'gravity', 10, 4, 1)))
    main.append(L(_freal(dig, V, 'relative_error', 10, 4, -4)))
    main.append(L(_freal(dig, V, 'incon0', 20, 6, 6), [' '] * 0, _freal(dig, V, 'incon1', 20, 6, 2)))
    for f in ('max_timesteps', 'print_interval', 'tstop', 'const_timestep', 'gravity', 'relative_error'):
        Gt[f] = (lambda f: lambda d: d.parameter[f])(f)
    for i in range(2): Gt['incon%d' % i] = (lambda i: lambda d: d.parameter['default_incons'][i])(i)
    main.append(L(''))
    if shape.get('momop'):
        # MOMOP record: 21 option digits, any of them (also all of them) zero
        main.append(L('MOMOP'))
        main.append(L(dig('momop', 21, False)))
    if shape.get('no_mesh'):
        # no ELEME / CONNE at all (mesh from MESHMAKER or from a MESH file given to the simulator)
        main.append(L('ENDCY'))
        return {'f.dat': main}, V, Gt
    tgt = mesh if shape.get('meshfile') else main
    tgt.append(L('ELEME'))
    names = ['AA  1', 'AB1 7']
    for k, nm in enumerate(names):
        p = 'blk%d.' % k
        tgt.append(L(nm, blank(10), 'SAND ', _freal(dig, V, p + 'volume', 10, 4, 4), blank(10) if k else _freal(dig, V, p + 'ahtx', 10, 4, 2), blank(10),
                     _freal(dig, V, p + 'x', 10, 3, 2), _freal(dig, V, p + 'y', 10, 3, 1), _freal(dig, V, p + 'z', 10, 3, 3, k == 0)))
        Gt[p + 'volume'] = (lambda k: lambda d: d.grid.blocklist[k].volume)(k)
        if not k: Gt[p + 'ahtx'] = lambda d: d.grid.blocklist[0].ahtx
        for i, ax in enumerate('xyz'): Gt[p + ax] = (lambda k, i: lambda d: d.grid.blocklist[k].centre[i])(k, i)
    tgt.append(L(''))
    tgt.append(L('CONNE'))
    tgt.append(L(names[0], names[1], blank(15), _fint(dig, V, 'con.direction', 5, 1), _freal(dig, V, 'con.d1', 10, 4, 1), _freal(dig, V, 'con.d2', 10, 4, 2),
                 _freal(dig, V, 'con.area', 10, 4, 3), _ffix(dig, V, 'con.dircos', 10, 7)))
    tgt.append(L(''))
    cn = lambda d: d.grid.connectionlist[0]
    Gt['con.direction'] = lambda d: cn(d).direction
    Gt['con.d1'] = lambda d: cn(d).distance[0]; Gt['con.d2'] = lambda d: cn(d).distance[1]
    Gt['con.area'] = lambda d: cn(d).area; Gt['con.dircos'] = lambda d: cn(d).dircos
    main.append(L('ENDCY'))
    files = {'f.dat': main}
    if shape.get('meshfile'): files['FMESH'] = mesh
    return files, V, Gt
