"""Shared helpers of the C08 / C09 harnesses (TOUGH2 grid edits).

* symbolic names (5-cell SStr of SChar over a character class),
* direct construction of an arbitrary consistent pre-state t2grid of a given
  *shape* (number of blocks, oriented connection list, rock assignment) from
  the REAL classes of the reloaded t2grids module,
* the consistency invariant I of DESIGN.md 4/C08 as labelled formulas over the
  post-state (object structure is concrete on a path, names are z3 terms),
* snapshot / physical signature used by C09,
* model -> concrete values for the replay files.

Nothing here is specific to one property; nothing here touches the engine.
"""
import itertools
import numpy as _np
import z3
from vx import sym, strs
from vx.sym import SReal, SInt, SBool
from vx.strs import SStr, SChar

ALPHABETS = {
    'lower': ((97, 122),),
    # letters, digits, blank: what the naming conventions + fix_blockname deal with
    'alnumsp': ((97, 122), (65, 90), (48, 57), (32, 32)),
}


# ---------------------------------------------------------------------------
# context with "known false" shortcuts (pure optimisation, see notes)

class FastCtx(sym.Ctx):
    """sym.Ctx that answers a branch on a condition which the harness has
    *assumed false* on this path (c.add(Not(e)) was done when it was
    registered) without a solver call.  Sound because the path condition only
    grows along a path; registration is deterministic (same symbols every
    path), so the decision prefix of the explorer is unaffected."""

    def reset(self, prefix):
        sym.Ctx.reset(self, prefix)
        self._kf = {}
        self.kf_hits = 0

    def assume_false(self, e):
        if isinstance(e, SBool): e = e.e
        if isinstance(e, bool):
            if e: self.add(False)
            return
        self.add(z3.Not(e))
        s = z3.simplify(e)
        if z3.is_false(s) or z3.is_true(s): return
        self._kf[s.get_id()] = s        # the AST is kept alive, so its id cannot be recycled

    def branch(self, e):
        kf = getattr(self, '_kf', None)
        if kf:
            s = z3.simplify(e)
            k = kf.get(s.get_id())
            if k is not None and k.eq(s):
                self.kf_hits += 1
                return False
        return sym.Ctx.branch(self, e)

    def solve(self, extra, full=False, timeout_ms=None):
        """Same query as sym.Ctx.solve (fresh solver, slice of the pc plus extra); the
        constraints are asserted through the C API directly, which avoids the
        per-constraint sort casts of Solver.add (about a third of the run time here)."""
        if getattr(self, 'isolver', None) is not None or getattr(self, 'logic', None):
            return sym.Ctx.solve(self, extra, full, timeout_ms)      # engine modes not used here
        import time as _time
        s = z3.Solver()
        s.set('timeout', timeout_ms or self.timeout_ms)
        cons = self.pc if full else self.slice_for(extra)
        cref, sol = s.ctx.ref(), s.solver
        for c in cons: z3.Z3_solver_assert(cref, sol, c.as_ast())
        s.add(extra)
        t0 = _time.time()
        r = s.check()
        dt = _time.time() - t0
        self.stats['queries'] += 1
        self.stats['solver_s'] += dt
        rs = str(r)
        self.stats[rs] = self.stats.get(rs, 0) + 1
        if rs == 'sat':
            return 'sat', s.model()
        return rs, None


# ---------------------------------------------------------------------------
# names

def mkname(c, base, alpha='lower', n=5):
    cells = []
    cls = ALPHABETS[alpha]
    for k in range(n):
        e = z3.Int('%s.%d' % (base, k))
        if len(cls) == 1:
            c.add(z3.And(e >= cls[0][0], e <= cls[0][1]))
        else:
            c.add(z3.Or(*[(e == lo) if lo == hi else z3.And(e >= lo, e <= hi) for lo, hi in cls]))
        cells.append(SChar(e))
    return SStr(cells)


def eqf(a, b):
    """python bool or z3 Bool: the two names are equal (no forking)."""
    if isinstance(a, SStr): r = a.eq_expr(b)
    elif isinstance(b, SStr): r = b.eq_expr(a)
    else: return a == b
    if isinstance(r, bool): return r
    r = z3.simplify(r)
    if z3.is_true(r): return True
    if z3.is_false(r): return False
    return r


def zb(x):
    return z3.BoolVal(x) if isinstance(x, bool) else x


def z_and(xs):
    xs = [x for x in xs if x is not True]
    if any(x is False for x in xs): return False
    if not xs: return True
    return z3.And(*xs) if len(xs) > 1 else xs[0]


def z_or(xs):
    xs = [x for x in xs if x is not False]
    if any(x is True for x in xs): return True
    if not xs: return False
    return z3.Or(*xs) if len(xs) > 1 else xs[0]


def z_not(x):
    if isinstance(x, bool): return not x
    return z3.Not(x)


def tup_eq(a, b):
    if not isinstance(a, tuple) or not isinstance(b, tuple) or len(a) != len(b): return False
    return z_and([eqf(x, y) for x, y in zip(a, b)])


def assume_distinct(c, a, b):
    e = eqf(a, b)
    if e is True: c.add(False); return
    if e is False: return
    if hasattr(c, 'assume_false'):
        c.assume_false(e)
        # the same equality reached through SStr.__eq__ the other way round
        e2 = eqf(b, a)
        if not isinstance(e2, bool): c.assume_false(e2)
    else:
        c.add(z3.Not(e))


def name_value(m, s):
    """concrete python str of a (symbolic) name in model m."""
    if isinstance(s, str): return s
    out = []
    for cell in s.cells:
        if isinstance(cell, str): out.append(cell)
        else: out.append(chr(sym.model_value(m, cell.code)))
    return ''.join(out)


def num_value(m, x):
    if isinstance(x, (SReal, SInt)): return sym.model_value(m, x.e)
    if isinstance(x, SBool): return sym.model_value(m, x.e)
    if isinstance(x, (_np.floating, float)): return float(x)
    if isinstance(x, (_np.integer,)): return int(x)
    return x


# ---------------------------------------------------------------------------
# shapes

def pairs(nb):
    return [(i, j) for i in range(nb) for j in range(i + 1, nb)]


def shape(nb, cons=(), nr=1, brock=None):
    """JSON-able description of a pre-state: nb blocks in list order,
    `cons` = oriented block-index pairs in connection-list order,
    nr registered rock types, brock[i] = rock index of block i."""
    if brock is None: brock = [i % nr for i in range(nb)] if nr else []
    return dict(nb=nb, cons=[list(p) for p in cons], nr=nr, brock=list(brock))


def shape_id(sh):
    return 'b%d_c%s_r%d_%s' % (sh['nb'], '.'.join('%d%d' % tuple(p) for p in sh['cons']) or '-', sh['nr'],
                               ''.join(str(x) for x in sh['brock']))


def orient(subset, pattern='alt'):
    """orientation + list order for a set of unordered pairs (deterministic)."""
    out = []
    for k, (i, j) in enumerate(subset):
        if pattern == 'fwd': out.append((i, j))
        elif pattern == 'rev': out.append((j, i))
        else: out.append((i, j) if k % 2 == 0 else (j, i))
    if pattern == 'alt' and len(out) > 1:
        out = out[1:] + out[:1]      # connection list order is not the pair order
    return out


# ---------------------------------------------------------------------------
# pre-state

class Pre(object):
    pass


def build(c, T, sh, tag='', alpha='lower', phys=False, volumes=True, other_names=()):
    """Arbitrary consistent t2grid of shape sh, built directly (no edit
    operation of the code under test is used) from the real classes.
    Names are symbolic and pairwise distinct (assumed); `other_names` are
    names created earlier that the new ones are NOT assumed distinct from."""
    p = Pre()
    nb, nr = sh['nb'], sh['nr']
    p.shape = sh
    p.rnames = [mkname(c, '%sr%d' % (tag, i), alpha) for i in range(nr)]
    p.bnames = [mkname(c, '%sn%d' % (tag, i), alpha) for i in range(nb)]
    for names in (p.rnames, p.bnames):
        for i in range(len(names)):
            for j in range(i):
                assume_distinct(c, names[i], names[j])
    g = T.t2grid()
    p.rocks = []
    for i in range(nr):
        rt = T.rocktype(p.rnames[i])
        p.rocks.append(rt)
        g.rocktypelist.append(rt)
        g.rocktype[p.rnames[i]] = rt
    p.vol, p.centre, p.blocks = [], [], []
    for i in range(nb):
        v = c.real('%sv%d' % (tag, i)) if volumes else 1.0
        if phys:
            ctr = _np.empty(3, dtype=object)
            for k, ax in enumerate('xyz'): ctr[k] = c.real('%sc%s%d' % (tag, ax, i))
        else:
            ctr = None
        if nr:
            blk = T.t2block(p.bnames[i], v, p.rocks[sh['brock'][i]], centre=ctr)
        else:
            raise ValueError('shape without rock types cannot hold blocks')
        p.vol.append(v); p.centre.append(ctr); p.blocks.append(blk)
        g.blocklist.append(blk)
        g.block[p.bnames[i]] = blk
    p.cons, p.phys = [], []
    for k, (i, j) in enumerate(sh['cons']):
        if phys:
            d = [c.real('%sd%da' % (tag, k), 0), c.real('%sd%db' % (tag, k), 0)]
            area = c.real('%sar%d' % (tag, k), 0, strict_lo=True)
            dc = c.real('%sdc%d' % (tag, k), -1, 1)
            dirn = c.int('%sdir%d' % (tag, k), 1, 3)
            nad = [c.int('%snad%da' % (tag, k), 0, 99), c.int('%snad%db' % (tag, k), 0, 99)]
            con = T.t2connection([p.blocks[i], p.blocks[j]], dirn, d, area, dc, nad1=nad[0], nad2=nad[1])
            p.phys.append(dict(d=list(d), area=area, dircos=dc, direction=dirn, nad=list(nad)))
        else:
            con = T.t2connection([p.blocks[i], p.blocks[j]])
        key = (p.bnames[i], p.bnames[j])
        p.cons.append(con)
        g.connectionlist.append(con)
        g.connection[key] = con
        p.blocks[i].connection_name.add(key)
        p.blocks[j].connection_name.add(key)
    p.g = g
    return p


def concrete_pre(m, p):
    """replay description of the pre-state in model m."""
    return dict(shape=p.shape,
                bnames=[name_value(m, n) for n in p.bnames],
                rnames=[name_value(m, n) for n in p.rnames],
                vol=[num_value(m, v) for v in p.vol],
                centre=[None if ctr is None else [num_value(m, x) for x in ctr] for ctr in p.centre],
                phys=[dict(d=[num_value(m, x) for x in ph['d']], area=num_value(m, ph['area']),
                           dircos=num_value(m, ph['dircos']), direction=num_value(m, ph['direction']),
                           nad=[num_value(m, x) for x in ph['nad']]) for ph in p.phys])


# ---------------------------------------------------------------------------
# invariant I (DESIGN.md 4/C08)

def _same_objects(dct, lst):
    ids_l = [id(x) for x in lst]
    return len(set(ids_l)) == len(ids_l) and set(ids_l) == set(id(x) for x in dct.values()) \
        and len(dct) == len(lst)


def invariant(g):
    """list of (group, label, value); value is a python bool (structure,
    concrete on the path) or a z3 Bool (names).  Groups: blocks, connections,
    backrefs, rocktypes."""
    out = []
    bl, bd = g.blocklist, g.block
    out.append(('blocks', 'block dict and block list hold the same objects (len dict %d, len list %d)' % (len(bd), len(bl)),
                _same_objects(bd, bl)))
    out.append(('blocks', 'every block is filed under its current name',
                z_and([eqf(k, getattr(v, 'name', None)) for k, v in bd.items()])))
    out.append(('blocks', 'block names are unique',
                z_and([z_not(eqf(a.name, b.name)) for a, b in itertools.combinations(bl, 2)])))
    cl, cd = g.connectionlist, g.connection
    out.append(('connections', 'connection dict and connection list hold the same objects (len dict %d, len list %d)' % (len(cd), len(cl)),
                _same_objects(cd, cl)))
    inlist = set(id(b) for b in bl)
    out.append(('connections', 'every connection joins two blocks that are in the grid',
                all(len(con.block) == 2 and all(id(b) in inlist for b in con.block) for con in cl)))
    out.append(('connections', 'every connection is filed under the pair of its blocks\' current names',
                z_and([tup_eq(k, tuple(b.name for b in con.block)) for k, con in cd.items()])))
    out.append(('connections', 'connection keys are unique',
                z_and([z_not(tup_eq(tuple(b.name for b in a.block), tuple(b.name for b in bb.block)))
                       for a, bb in itertools.combinations(cl, 2)])))
    parts = []
    for blk in bl:
        mention = [k for k, con in cd.items() if any(b is blk for b in con.block)]
        record = list(blk.connection_name)
        parts.append(z_and([z_or([tup_eq(r, k) for k in mention]) for r in record]))
        parts.append(z_and([z_or([tup_eq(r, k) for r in record]) for k in mention]))
    out.append(('backrefs', 'each block\'s connection_name is exactly the set of connection keys that mention it',
                z_and(parts)))
    rl, rd = g.rocktypelist, g.rocktype
    out.append(('rocktypes', 'rocktype dict and list hold the same objects (len dict %d, len list %d)' % (len(rd), len(rl)),
                _same_objects(rd, rl)))
    out.append(('rocktypes', 'every rocktype is filed under its current name, names unique',
                z_and([eqf(k, v.name) for k, v in rd.items()] +
                      [z_not(eqf(a.name, b.name)) for a, b in itertools.combinations(rl, 2)])))
    rids = set(id(r) for r in rl)
    out.append(('rocktypes', 'every block\'s rock type is one registered in the grid',
                all(id(b.rocktype) in rids for b in bl)))
    return out


def prove_invariant(c, g, distinct=None):
    """Prove every clause; returns list of (group, label) that came back sat
    (the model is c.failures[-1]['model'] right after each) as
    [(group, label, model)]."""
    bad = []
    for group, label, val in invariant(g):
        if distinct is not None and not isinstance(val, bool):
            distinct.add((label, z3.simplify(val).hash()))
        r = c.prove(val, label)
        if r == 'sat':
            bad.append((group, label, c.failures[-1]['model']))
    return bad


# ---------------------------------------------------------------------------
# C09: physical description taken from the ordered lists (what gets written)

def snapshot(g):
    """per block object / connection object, the physical data before the edit."""
    s = Pre()
    s.blocks = [(b, b.name, b.volume, b.rocktype, b.centre) for b in g.blocklist]
    s.cons = [(con, tuple(con.block), tuple(con.distance), con.area, con.direction, con.dircos,
               con.nad1, con.nad2) for con in g.connectionlist]
    return s
