"""Mesh families and edit steps shared by the C10/C11 harnesses and their
replays.  No z3 import here: the symbolic harness passes an `env` that hands
out symbolic numbers, the replay passes one that hands out floats.

env interface:  env.pos(name) -> number > 0
                env.free(name) -> any number
                env.between(name, lo, hi) -> number with lo < x < hi (lo/hi may be None)

All geometry is produced by the REAL mulgrids code of the module object `M`
(rectangular(), add_node(), add_column(), add_layers(), ...)."""

# ---------------------------------------------------------------------------
# surface patterns: where a column's surface sits relative to the layer
# elevations z0 (top) > z1 > ... > zn.  Codes:
#   'def'        leave the default surface (= z0, default_surface True)
#   ('in', i)    z_i < s < z_(i-1)            (i >= 1)
#   ('at', i)    s == z_i                     (i >= 0)
#   'above'      s > z0
#   'below'      s < zn
#   'free'       any real
SURF_PATTERNS = {
    'default': ['def'],
    'in1': [('in', 1)],
    'mixed': [('in', 1), 'above', ('in', 2), ('at', 0), ('in', 1), ('at', 1), ('in', 2), 'above', 'def'],
    'mixed2': [('in', 2), ('in', 1), 'below', 'above', ('at', 1), ('in', 2), 'def', ('in', 1), ('at', 0)],
    'deep': [('in', 2), 'below', ('in', 2), ('at', 2)],
    'sparse': ['def', ('in', 1), 'above', 'def', ('in', 2), 'def'],
    'sparse2': [('in', 2), 'def', 'def', ('at', 1), 'def', 'below'],
    'free': ['free'],          # unconstrained: the code under test forks on its position
}


def surface_code(fam, i):
    pat = SURF_PATTERNS[fam.get('surf', 'default')]
    code = pat[(i + fam.get('surf_shift', 0)) % len(pat)]
    nz = fam['nz']
    if isinstance(code, tuple) and code[1] > nz:
        code = (code[0], nz)
    return code


def assign_surfaces(geo, fam, env):
    z = [lay.bottom for lay in geo.layerlist]
    for i, col in enumerate(geo.columnlist):
        code = surface_code(fam, i)
        if code == 'def': continue
        nm = 's%d' % i
        if code == 'free': s = env.free(nm)
        elif code == 'above': s = env.between(nm, z[0], None)
        elif code == 'below': s = env.between(nm, None, z[-1])
        elif code[0] == 'in': s = env.between(nm, z[code[1]], z[code[1] - 1])
        else: s = z[code[1]] + 0.0
        col.surface = s
        geo.set_column_num_layers(col)
    geo.setup_block_name_index()
    geo.setup_block_connection_name_index()


def _finish(geo, fam, env, dz, oz):
    geo.add_layers(dz, oz)
    geo.set_default_surface()
    for con in geo.missing_connections: geo.add_connection(con)
    geo.identify_neighbours()
    geo.setup_block_name_index()
    geo.setup_block_connection_name_index()


def _names(n):
    from string import ascii_lowercase as L
    return ['  ' + L[i] if i < 26 else ' ' + L[i // 26 - 1] + L[i % 26] for i in range(n)]


def build(M, fam, env):
    """Returns the geometry of the family `fam` with numbers from `env`."""
    kind = fam['kind']
    nz = fam['nz']
    atm = fam.get('atm', 2)
    conv = fam.get('conv', 0)
    dz = [env.pos('dz%d' % i) for i in range(nz)]
    ox, oy, oz = env.free('ox'), env.free('oy'), env.free('oz')
    np = M.np
    if kind == 'RECT':
        dx = [env.pos('dx%d' % i) for i in range(fam['nx'])]
        dy = [env.pos('dy%d' % i) for i in range(fam['ny'])]
        geo = M.mulgrid().rectangular(dx, dy, dz, convention=conv, atmos_type=atm, origin=[ox, oy, oz],
                                      **({'justify': fam['justify']} if fam.get('justify') else {}))
    elif kind == 'Q4':
        # 2x2 unit squares whose shared centre node is moved to (a, b),
        # |a-1| + |b-1| < 1 keeps the four quadrilaterals convex
        geo = M.mulgrid().rectangular([1., 1.], [1., 1.], dz, convention=conv, atmos_type=atm, origin=[ox, oy, oz])
        a, b = env.diamond('a', 'b')
        nd = geo.nodelist[4]
        nd.pos = np.array([ox + a, oy + b])
        for col in geo.columnlist:
            col.get_area()
            if fam.get('centre') == 'centroid': col.centre = col.centroid
            # default: the centres stay where rectangular() put them (the cell
            # centres, still strictly inside the perturbed columns)
    elif kind == 'Q1':
        # one quadrilateral (0,0) (1,0) (a,b) (0,1), a, b > 0, a + b > 1
        geo = M.mulgrid(convention=conv, atmos_type=atm)
        a, b = env.quadfam('a', 'b')
        pts = [(0., 0.), (1., 0.), (a, b), (0., 1.)]
        nm = _names(4)
        for n, (x, y) in zip(nm, pts): geo.add_node(M.node(n, np.array([ox + x, oy + y])))
        if fam.get('centre') == 'centroid':
            geo.add_column(M.column(nm[0], [geo.node[n] for n in nm]))
        else:   # centre specified (as read from a geometry file) at (1/2, 1/2): strictly inside since a + b > 1
            geo.add_column(M.column(nm[0], [geo.node[n] for n in nm], centre=np.array([ox + 0.5, oy + 0.5])))
        _finish(geo, fam, env, dz, oz)
    elif kind == 'HANG':
        geo = _build_hang(M, fam, env, dz, ox, oy, oz)
    elif kind == 'MIX':
        # 2 quadrilaterals, 2 triangles, 1 pentagon on a fixed integer layout,
        # stretched by sx, sy > 0 (symbolic unless fam['concrete']) and moved to (ox, oy)
        geo = M.mulgrid(convention=conv, atmos_type=atm)
        if fam.get('concrete'): sx = sy = 1.0; ox = oy = 0.0
        else: sx, sy = env.pos('sx'), env.pos('sy')
        for n, (x, y) in MIX_NODES.items():
            geo.add_node(M.node(n, np.array([ox + sx * float(x), oy + sy * float(y)])))
        for cn, nodes in MIX_COLUMNS:
            geo.add_column(M.column(cn, [geo.node[n] for n in nodes]))
        _finish(geo, fam, env, dz, oz)
    elif kind == 'CONC':
        geo = M.mulgrid(convention=conv, atmos_type=atm)
        nm = _names(sum(len(p) for p in fam['polys']))
        seen = {}
        k = 0
        for ci, poly in enumerate(fam['polys']):
            nodes = []
            for (x, y) in poly:
                key = (x, y)
                if key not in seen:
                    seen[key] = nm[k]; k += 1
                    geo.add_node(M.node(seen[key], np.array([float(x), float(y)])))
                nodes.append(geo.node[seen[key]])
            geo.add_column(M.column(_names(ci + 1)[ci], nodes))
        _finish(geo, fam, env, dz, oz)
    else:
        raise ValueError(kind)
    if fam.get('conn_flip'): flip_connections(M, geo, fam['conn_flip'])
    if fam.get('atm_name'): geo.rename_layer(geo.layerlist[0].name, fam['atm_name'])
    if fam.get('surf', 'default') != 'default':
        assign_surfaces(geo, fam, env)
    return geo


def flip_connections(M, geo, which):
    """Re-file connections with their two columns in the other order, as a
    geometry file whose CONNE lines name the columns in that order would give
    (read_connections adds them exactly like this).  which: 'all', or 'alt'
    (every second connection of the list)."""
    for i, con in enumerate(list(geo.connectionlist)):
        if which == 'alt' and i % 2: continue
        a, b = con.column
        geo.delete_connection((a.name, b.name))
        geo.add_connection(M.connection([b, a]))
    geo.identify_neighbours()


MIX_NODES = {'  a': (0, 0), '  b': (2, 0), '  c': (4, 0), '  d': (0, 2), '  e': (2, 2), '  f': (4, 2),
             '  g': (1, 4), '  h': (3, 5), '  i': (5, 4), '  j': (6, 1)}
MIX_COLUMNS = [('  a', ['  a', '  b', '  e', '  d']), ('  b', ['  b', '  c', '  f', '  e']),
               ('  c', ['  d', '  e', '  g']), ('  d', ['  e', '  f', '  i', '  h', '  g']), ('  e', ['  c', '  j', '  f'])]


def _build_hang(M, fam, env, dz, ox, oy, oz):
    """A rectangular centre column [0,W]x[0,H] with hang[s] hanging (straight)
    nodes on side s (0 bottom, 1 right, 2 top, 3 left, counter-clockwise);
    each side that has hanging nodes is lined with hang[s]+1 small rectangular
    columns of depth g_s - what refining a rectangular mesh without transition
    columns leaves behind."""
    np = M.np
    hang = fam['hang']
    geo = M.mulgrid(convention=fam.get('conv', 0), atmos_type=fam.get('atm', 2))
    def free_side(prefix, k):
        d, a = [0.0], None
        for i in range(k + 1):
            s = env.pos('%s%d' % (prefix, i))
            a = s if a is None else a + s
            d.append(a)
        return d
    def tied_side(prefix, k, total):
        d, lo = [0.0], 0.0
        for i in range(k):
            e = env.between('%s%d' % (prefix, i), lo, total)
            d.append(e); lo = e
        d.append(total)
        return d
    d0 = free_side('u', hang[0]); W = d0[-1]
    d1 = free_side('v', hang[1]); H = d1[-1]
    d2 = tied_side('t', hang[2], W)
    d3 = tied_side('w', hang[3], H)
    dist = [d0, d1, d2, d3]
    def point(s, d):
        return [(d, 0.0), (W, d), (W - d, H), (0.0, H - d)][s]
    def outer(s, d, g):
        return [(d, -g), (W + g, d), (W - d, H + g), (-g, H - d)][s]
    names = iter(_names(80))
    nodes = {}
    def nd(key, xy):
        if key not in nodes:
            n = M.node(next(names), np.array([ox + xy[0], oy + xy[1]]))
            geo.add_node(n); nodes[key] = n
        return nodes[key]
    def inner_key(s, i):
        if i == 0: return ('c', s)
        if i == len(dist[s]) - 1: return ('c', (s + 1) % 4)
        return ('h', s, i)
    ring = []
    for s in range(4):
        for i in range(len(dist[s]) - 1):
            ring.append(nd(inner_key(s, i), point(s, dist[s][i])))
    cnames = iter(_names(30))
    rot = fam.get('rot', 0) % len(ring)      # which node the centre column's node list starts at
    ring = ring[rot:] + ring[:rot]
    geo.add_column(M.column(next(cnames), ring))
    for s in range(4):
        if not hang[s]: continue
        g = env.pos('g%d' % s)
        for i in range(len(dist[s]) - 1):
            geo.add_column(M.column(next(cnames), [
                nd(('o', s, i), outer(s, dist[s][i], g)), nd(('o', s, i + 1), outer(s, dist[s][i + 1], g)),
                nodes[inner_key(s, i + 1)], nodes[inner_key(s, i)]]))
    _finish(geo, fam, env, dz, oz)
    return geo


# ---------------------------------------------------------------------------
# edit steps.  A step is a JSON-able dict; columns are referred to by NAME
# (resolved by the caller: the symbolic harness uses the names of its own run,
# the replay maps witness vertex coordinates to its own names).

def apply_step(M, geo, step):
    k = step['op']
    if k == 'refine':
        kw = {}
        if step.get('bisect', False) is not False: kw['bisect'] = step['bisect']
        if step.get('edge'): kw['bisect_edge_columns'] = list(step['edge'])
        cols = list(step['cols'])
        return geo.refine(cols, **kw)
    if k == 'split':
        return geo.split_column(step['col'], step['node'])
    if k == 'triangulate':
        return geo.triangulate_column(step['col'])
    if k == 'subdivide':
        return geo.subdivide_column(step['col'], step['i0'], [tuple(t) for t in step['lists']])
    if k == 'decompose':
        return geo.decompose_columns(list(step['cols']))
    if k == 'decompose_one':
        return geo.decompose_column(step['col'])
    if k == 'refine_layers':
        return geo.refine_layers(list(step['layers']), step['factor'])
    # ---- low-level and other edits (C10) ----
    if k == 'delete_column': return geo.delete_column(step['col'])
    if k == 'add_column':
        col = M.column(step['name'], [geo.node[n] for n in step['nodes']], surface=step.get('surface'))
        geo.add_column(col)
        if step.get('surface') is not None: geo.set_column_num_layers(col)
        else: col.num_layers = geo.num_layers - 1 if geo.num_layers else 0
        return col
    if k == 'add_node': return geo.add_node(M.node(step['name'], M.np.array(list(step['pos']))))
    if k == 'delete_node':
        if step['name'] in geo.node: return geo.delete_node(step['name'])
        return None
    if k == 'add_connection':
        return geo.add_connection(M.connection([geo.column[n] for n in step['cols']]))
    if k == 'delete_connection': return geo.delete_connection(tuple(step['cols']))
    if k == 'add_layer':
        last = geo.layerlist[-1]
        bottom = last.bottom - step['thickness']
        return geo.add_layer(M.layer(step['name'], bottom, 0.5 * (bottom + last.bottom), last.bottom + 0.0))
    if k == 'delete_layer': return geo.delete_layer(step['layer'])
    if k == 'rename_column': return geo.rename_column(step['col'], step['name'])
    if k == 'rename_layer': return geo.rename_layer(step['layer'], step['name'])
    if k == 'add_well':
        return geo.add_well(M.well(step['name'], [M.np.array(list(p)) for p in step['pos']]))
    if k == 'delete_well':
        if step['name'] in geo.well: return geo.delete_well(step['name'])
        return None
    if k == 'reduce': return geo.reduce(list(step['cols']))
    if k == 'check_fix': return geo.check(fix=True, silent=True)
    if k == 'snap': return geo.snap_columns_to_layers(step['min_thickness'], list(step.get('cols', [])))
    if k == 'snap_nearest': return geo.snap_columns_to_nearest_layers(list(step.get('cols', [])))
    if k == 'translate': return geo.translate(list(step['shift']))
    if k == 'rotate': return geo.rotate(step['angle'], centre=list(step['centre']))
    if k == 'copy_layers_from' and step.get('companion'):
        # the source is a full second geometry that stays part of the history (C10)
        return geo.copy_layers_from(companion(M, geo, step))
    if k == 'copy_layers_from':
        other = M.mulgrid(convention=geo.convention, atmos_type=geo.atmosphere_type)
        other.add_layers(list(step['thicknesses']), step['top'])
        return geo.copy_layers_from(other)
    if k == 'give_layers':        # the second geometry copies THIS geometry's layers
        return companion(M, geo, step).copy_layers_from(geo)
    if k == 'companion':          # an edit applied to the second geometry
        return apply_step(M, geo._vx_companion, step['do'])
    if k == 'refresh':            # what the caller of low-level edits is expected to do afterwards
        geo.setup_block_name_index()
        geo.setup_block_connection_name_index()
        geo.identify_neighbours()
        return None
    raise ValueError(k)


def companion(M, geo, step):
    """The second geometry of a two-geometry history (C10): a 2x1 rectangular
    mesh with its own layers; column 0 keeps the default surface, column 1 gets
    step['surface'] (strictly inside the top layer).  Created on first use and
    kept on the primary geometry as `_vx_companion`."""
    comp = getattr(geo, '_vx_companion', None)
    if comp is None:
        comp = M.mulgrid().rectangular([1.0, 1.0], [1.0], list(step['thicknesses']), convention=geo.convention,
                                       atmos_type=geo.atmosphere_type, origin=[0.0, 0.0, step['top']])
        if step.get('surface') is not None:
            col = comp.columnlist[1]
            col.surface = step['surface']
            comp.set_column_num_layers(col)
            comp.setup_block_name_index()
            comp.setup_block_connection_name_index()
        geo._vx_companion = comp
    return comp


def perm_names(olds, perm, fresh='xyz'):
    """new names for the list form of rename_column / rename_layer"""
    olds = list(olds)
    if perm in ('swap', 'cycle'): return olds[1:] + olds[:1]
    if perm == 'chain': return olds[1:] + [fresh]          # each takes its successor's old name, the last a fresh one
    if perm == 'unchain': return [fresh] + olds[:-1]       # the same renaming listed in the order that works one by one
    raise ValueError(perm)


# ops that promise a valid mesh afterwards (connections rebuilt)
PROMISES_CONNECTIONS = ('refine', 'split', 'decompose')
PROMISES_VALID_MESH = ('refine', 'split', 'decompose', 'reduce', 'check_fix')
