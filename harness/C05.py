"""C05 - listing tables hold exactly the numbers printed (KERNEL LEVEL).

For every shipped listing file a small text extractor (harness/c05_common.py,
independent of t2listing) takes the first table of each kind: header line,
longest row, a few other rows.  In those rows every digit of every printed
number becomes a symbolic digit cell and every sign position (a '-' or the
blank immediately before a number) a symbolic cell over {' ', '-'}; the
punctuation ('.', 'E', exponent sign), the block names and the row index stay
as printed.  The REAL kernel of the reader (reloaded from /repo) then runs on
those symbolic rows:

    t2listing.start_of_values, key_positions, parse_table_line            (layout inference, longest row)
    t2listing.read_table_line_TOUGH2 / read_table_line_AUTOUGH2            (bound by the real detect_simulator)
    fixed_format_file.fortran_float (whole cascade), mulgrids.fix_blockname / valid_blockname
    listingtable.__init__, key_from_line, __setitem__, __getitem__

and z3 decides, for every digit/sign pattern at once, that each cell of the
table equals the number printed in that column of that row (independent
evaluation of the same cells: sign * digits * 10**exponent), that blank
trailing cells read as 0, that keys are the printed names, and that the
row-name / row-index / column-name (and reversed-key) ways of addressing agree.

task_setup runs the real setup_table_* and read_table_* on a miniature table in
memory, reads it at two successive result times into the same table object
(nothing may survive from the first time), and for generation tables of the
TOUGH2 family does so with every order of three row widths (the real code
chooses the row it infers the column positions from).
"""
import io
import os
import numpy as _numpy
import re as _re
import z3
from fractions import Fraction
from vx import sym, strs, loader, report
from vx.sym import SReal, SInt, SBool
from vx.strs import SStr
from harness import c05_common as cc

PID = 'C05'
REPO = loader.REPO
ROOT = os.path.join(REPO, 'tests', 'listing')

_LD = None
def _load():
    global _LD
    if _LD is None:
        _LD = loader.load(['t2listing'])
        _install_re_shim()
    return _LD


# ---------------------------------------------------------------------------
# `from re import finditer` inside parse_table_line: evaluated on the concrete
# punctuation skeleton, only when the result cannot depend on a symbolic cell

class _Match(object):
    def __init__(self, k): self.k = k
    def start(self): return self.k

_orig_finditer = _re.finditer
def _finditer(pattern, string, flags=0):
    if isinstance(string, SStr):
        if not (isinstance(pattern, str) and len(pattern) == 2 and pattern[0] == '\\'):
            raise sym.Unsupported('regex %r on a symbolic row' % (pattern,))
        ch = pattern[1]
        out = []
        for k, c in enumerate(string._resolved().cells):
            r = strs.cells_equal(c, ch)
            if r is True: out.append(_Match(k))
            elif r is False: continue
            else: raise sym.Unsupported('regex result depends on a symbolic cell')
        cx = sym.ctx()
        if cx is not None: cx.stubs_hit.add('re.finditer(escape(%r)) evaluated on the concrete punctuation skeleton' % ch)
        return iter(out)
    return _orig_finditer(pattern, string, flags)

_orig_findall = _re.findall
def _findall(pattern, string, flags=0):
    """is_results_line counts findall('\\.[0-9]+', line): on a symbolic row the matches are
    the concrete points followed by a cell that is certainly a digit; Unsupported if a
    symbolic cell could be a point or is only possibly a digit."""
    if isinstance(string, SStr):
        if pattern != '\\.[0-9]+': raise sym.Unsupported('regex %r on a symbolic row' % (pattern,))
        cells = string.cells
        out = []
        for k, c in enumerate(cells):
            r = strs.cells_equal(c, '.')
            if r is False: continue
            if r is not True: raise sym.Unsupported('regex result depends on a symbolic cell')
            if k + 1 >= len(cells): continue
            d = cells[k + 1]
            if isinstance(d, str): isd = d.isdigit() and d.isascii()
            elif isinstance(d, strs.DChar) and d.dom <= _DIG: isd = True
            elif isinstance(d, strs.DChar) and not (d.dom & _DIG): isd = False
            else: raise sym.Unsupported('regex result depends on a symbolic cell')
            if isd: out.append('.0')
        cx = sym.ctx()
        if cx is not None: cx.stubs_hit.add("re.findall('\\.[0-9]+') counted on the concrete points followed by a digit-class cell")
        return out
    return _orig_findall(pattern, string, flags)

def _install_re_shim():
    if _re.finditer is not _finditer: _re.finditer = _finditer
    if _re.findall is not _findall: _re.findall = _findall


# ---------------------------------------------------------------------------
# inputs

_FILES = {}
def file_tables(rel):
    """(family, tables) of a shipped file, by the independent extractor (cached per process)."""
    if rel not in _FILES:
        _FILES[rel] = cc.extract_tables(os.path.join(ROOT, rel))
    return _FILES[rel]


_OBJ = {}
def reader_object(ld, rel):
    """Minimal t2listing object: created without __init__, given only what the
    real detect_simulator reads (filename, encoding, _file); detect_simulator then
    binds the per-simulator methods exactly as the real reader does."""
    if rel not in _OBJ:
        L = ld.t2listing
        obj = L.t2listing.__new__(L.t2listing)
        obj.filename = os.path.join(ROOT, rel)
        obj.encoding = 'latin-1'
        with open(obj.filename, 'rb') as f: raw = f.read()
        obj._file = io.BytesIO(raw)
        obj.detect_simulator()
        obj._file = None
        _OBJ[rel] = obj
    return _OBJ[rel]


def parse_header(obj, header):
    obj._file = io.BytesIO(header.encode('latin-1'))
    try:
        if obj.simulator == 'AUTOUGH2': return obj.parse_table_header_AUTOUGH2()
        return obj.parse_table_header_TOUGH2()
    finally:
        obj._file = None


def apply_noE(text, tok):
    """Same printed width, three-digit exponent with the letter dropped
    (Fortran's form for |exponent| > 99): 'E-05' -> '-105'."""
    ex = tok['exp']
    if ex is None or ex['letter'] is None or ex['sign'] is None or ex['digits'][1] - ex['digits'][0] != 2:
        return None
    t = list(text)
    t[ex['letter']] = text[ex['sign']]
    t[ex['sign']] = '1'
    return ''.join(t)


_DIG = frozenset(range(48, 58))
_SGN = frozenset([32, 45])

def symbolize(tag, text, toks, sign_tokens):
    """cells of the row: digits of every token symbolic, sign positions of the
    tokens in sign_tokens (None = all) symbolic over {' ', '-'}.  Returns the
    string and the domain constraints (added to every path by the caller; the
    terms are built once per task)."""
    cells = list(text)
    cons = []
    for j, t in enumerate(toks):
        rng = list(range(*t['ip'])) + list(range(*t['fp']))
        if t['exp'] is not None: rng += list(range(*t['exp']['digits']))
        for p in rng:
            e = z3.Int('%s.d%d' % (tag, p))
            cells[p] = strs.DChar(e, _DIG); cons.append(z3.And(e >= 48, e <= 57))
        if t['sign'] is not None and (sign_tokens is None or j in sign_tokens):
            e = z3.Int('%s.s%d' % (tag, t['sign']))
            cells[t['sign']] = strs.DChar(e, _SGN); cons.append(z3.Or(e == 32, e == 45))
    return strs._mk(cells), cons


def expected_term(cells, tok):
    """Independent evaluation of the printed number from its cells:
    (+/-) sum(digit_i * 10^k) * 10^(exponent - number of fraction digits)."""
    def dig(p):
        x = cells[p]
        return z3.IntVal(int(x)) if isinstance(x, str) else (x.code - 48)
    mant = list(range(*tok['ip'])) + list(range(*tok['fp']))
    n = len(mant)
    M = z3.Sum(*[dig(p) * (10 ** (n - 1 - i)) for i, p in enumerate(mant)]) if n > 1 else dig(mant[0])
    E = z3.IntVal(-(tok['fp'][1] - tok['fp'][0]))
    lo = hi = -(tok['fp'][1] - tok['fp'][0])
    if tok['exp'] is not None:
        ed = list(range(*tok['exp']['digits']))
        m = len(ed)
        ev = z3.Sum(*[dig(p) * (10 ** (m - 1 - i)) for i, p in enumerate(ed)]) if m > 1 else dig(ed[0])
        es = tok['exp']['sign']
        neg = es is not None and cells[es] == '-'
        E = E - ev if neg else E + ev
        if neg: lo -= 10 ** m - 1
        else: hi += 10 ** m - 1
    mag = z3.ToReal(M) * strs.pow10_term(E)
    s = tok['sign']
    if s is None: val, sg = mag, z3.IntVal(1)
    else:
        sc = cells[s]
        if isinstance(sc, str): val, sg = (-mag, z3.IntVal(-1)) if sc == '-' else (mag, z3.IntVal(1))
        else: val, sg = z3.If(sc.code == 32, mag, -mag), z3.If(sc.code == 45, z3.IntVal(-1), z3.IntVal(1))
    return val, (lo, hi), (sg, M, E)


def _valform(lo, hi, ae, exp):
    return z3.Implies(z3.And(*strs.pow10_axioms(lo, hi)), ae == exp) if lo != hi else (ae == exp)


def _confirm(c, lab, lo, hi, ae, exp, rparts, oparts, f):
    """The component-wise obligation f (same sign, digits, exponent) is sufficient, not
    necessary.  A cell fails only if the VALUES can differ: look for a model of NOT f with
    non-zero digits and compare the two values exactly (sign*digits*10^exponent as
    rationals); if that does not settle it, ask z3 for the values directly with the
    pow10 facts as hypotheses.  Returns a model or None."""
    if rparts is not None and oparts is not None:
        r, m = c.solve(z3.And(z3.Not(f), rparts[1] != 0, oparts[1] != 0), full=True)
        if r == 'sat':
            def val(parts):
                sg, M, E = [m.eval(x, model_completion=True).as_long() for x in parts]
                return sg * M * Fraction(10) ** E
            if val(rparts) != val(oparts):
                c.stats['ob_sat'] += 1; c.stats['obligations'] += 1
                return m
    if c.prove(_valform(lo, hi, ae, exp), lab + ':value') == 'sat':
        return ([f_ for f_ in c.failures if f_['label'] == lab + ':value'] or [dict(model=None)])[-1]['model']
    return None


def concretize(m, sstr, printed=None):
    """the row text for a model (cells the model does not constrain keep the printed character)."""
    out = []
    for i, x in enumerate(sstr.cells if isinstance(sstr, SStr) else list(sstr)):
        if isinstance(x, str): out.append(x)
        else:
            try: v = m.eval(x.code, model_completion=False).as_long()
            except Exception: v = None
            if v not in x.dom:
                v = ord(printed[i]) if printed is not None and ord(printed[i]) in x.dom else min(x.dom)
            out.append(chr(v))
    return ''.join(out)


def _extext(ex):
    """message of an exception raised by the code under test (its arguments may be symbolic strings)."""
    out = []
    for a in getattr(ex, 'args', ()):
        out.append(a.split('\n')[0][:60] if isinstance(a, str) else
                   ''.join(x if isinstance(x, str) else '#' for x in a.cells).split('\n')[0][:60] if isinstance(a, SStr) else repr(a)[:60])
    return ' '.join(out)


def _tok_form(t):
    if t['point'] is None: return 'integer'
    if t['exp'] is None: return 'fixed-point'
    return 'E-form' if t['exp']['letter'] is not None else 'noE-exponent'


def _trigger(text, toks, cols):
    """Names the input class of a failure from the concrete longest row: the first
    number that is directly followed (no blank) by a negative number and is itself
    not in E-form - the situation in which the layout inference has neither a blank
    nor an 'E' to go by.  Used only to make failure keys specific."""
    for j in range(len(toks) - 1):
        a, b = toks[j], toks[j + 1]
        if b['sign'] is not None and text[b['sign']] == '-' and b['start'] == a['end'] and _tok_form(a) != 'E-form':
            return '%s(%s)-then-negative' % (cols[j] if j < len(cols) else 'col%d' % j, _tok_form(a))
    for j in range(len(toks) - 1):
        a, b = toks[j], toks[j + 1]
        if b['sign'] is not None and text[b['sign']] == '-' and _tok_form(a) != 'E-form':
            return '%s(%s)-then-negative-after-blanks' % (cols[j] if j < len(cols) else 'col%d' % j, _tok_form(a))
    return 'other'


def _is_nan(v):
    return isinstance(v, float) and v != v


# ---------------------------------------------------------------------------
# one task = one (file, table, sign window of the longest row, exponent-form variant)

def task_table(rel, ti, window, variant, nother):
    """window: tuple of token indices of the longest row whose sign cells are symbolic
    (the other sign cells of that row stay as printed); None = all of them.
    variant: None or ('other'|'longest', token index): that token printed in the
    no-letter three-digit exponent form."""
    ld = _load()
    fam, tabs = file_tables(rel)
    tab = tabs[ti]
    kind = tab['kind']
    obj = reader_object(ld, rel)
    L = ld.t2listing
    nkeys, cols = parse_header(obj, tab['header'])
    ncols = len(cols)
    int_first = cols[0] == 'I'
    rows = tab['rows']
    li, others = cc.choose_rows(rows, nother)
    texts = {k: rows[k] for k in [li] + others}
    vtag = 'base'
    if variant is not None:
        where, vj = variant
        k = li if where == 'longest' else others[0]
        tk = cc.tokenize_row(texts[k], int_first)
        nt = apply_noE(texts[k], tk[vj])
        if nt is None: raise ValueError('variant %r not applicable' % (variant,))
        texts[k] = nt
        vtag = 'noE@%s' % where
    toks = {k: cc.tokenize_row(texts[k], int_first) for k in texts}
    # printed names: found in the longest row; names are printed in fixed columns, so the
    # same positions hold in every row of the block (a row index that has grown into the
    # name field, as in 'al1010', makes a row ambiguous on its own)
    kp_table = cc.printed_keys(texts[li], toks[li][0]['start'], nkeys)
    if kp_table is None: raise ValueError('extractor found no printed names in the longest row of %s/%s' % (rel, kind))
    okeypos = {}
    for k in texts:
        own = cc.printed_keys(texts[k], toks[k][0]['start'], nkeys)
        okeypos[k] = kp_table
        if own is not None and own != kp_table and all(texts[k][p + 4].isdigit() for p in own) and \
           not all(texts[k][p + 4].isdigit() for p in kp_table):
            raise ValueError('names of row %d of %s/%s are not in the columns of the longest row' % (k, rel, kind))
    rowkeys = []
    for r in rows:                      # row names of the whole block, by the independent oracle
        names = tuple(cc.fix_name(r[p:p + 5]) for p in kp_table)
        rowkeys.append(names[0] if nkeys == 1 else names)
    # rows printed twice (TOUGH2_MP prints some rows on several processors; the reader keeps
    # one per row index - outside this claim): one table row per distinct key, in order
    allkeys = []
    for x in rowkeys:
        if x not in allkeys: allkeys.append(x)
    rowidx = {k: allkeys.index(rowkeys[k]) for k in texts}
    lends = [t['end'] for t in toks[li]]
    failures, samples, distinct = [], [], set()
    notes = []
    base_key = '%s/%s/%s' % (rel, kind, vtag)

    sy, allcons = {}, []
    for k in [li] + others:
        wnd = window if (k == li and fam != 'AUTOUGH2') else None
        sy[k], cons_k = symbolize('r%d' % k, texts[k], toks[k], None if wnd is None else set(wnd))
        allcons += cons_k
    cells = {k: (sy[k].cells if isinstance(sy[k], SStr) else list(sy[k])) for k in sy}
    expected = {k: [expected_term(cells[k], t) for t in toks[k]] for k in sy}     # independent oracle, built once

    def h(c):
        first = not samples
        for con in allcons: c.add(con)

        def fail(stage, what, extra_formula=False, row=None, classify=False):
            """obligation `extra_formula` (default False: the path itself is the
            counterexample) failed/raised at `stage`."""
            r = c.prove(extra_formula, stage)
            if r == 'sat':
                m = c.failures[-1]['model']
                if classify: stage = '%s:%s' % (stage, _trigger(concretize(m, sy[li], texts[li]), toks[li], cols))
                failures.append(dict(
                    key='%s/%s' % (base_key, stage), what='%s %s table (%s): %s' % (rel, kind, vtag, what),
                    replay=dict(file=rel, kind=kind, header=tab['header'], nkeys=nkeys, int_first=int_first,
                                longest=concretize(m, sy[li], texts[li]), longest_tokens=toks[li],
                                rows=[dict(index=rowidx[k], text=concretize(m, sy[k], texts[k]), tokens=toks[k], keypos=okeypos[k])
                                      for k in [li] + others],
                                allkeys=[list(x) if isinstance(x, tuple) else x for x in allkeys],
                                stage=stage, row=row, variant=vtag)))
            return r

        # ---- layout inference from the (symbolic) longest row, as setup_table_* does
        line = sy[li]
        try:
            start = obj.start_of_values(line, cols)
        except Exception as ex:
            fail('start_of_values:raises', 'start_of_values raised %s: %s' % (type(ex).__name__, _extext(ex))); return 'start-raises'
        ostart = toks[li][0]['start']
        if not (isinstance(start, int) and 0 <= start <= ostart and texts[li][start:ostart].strip() == ''):
            # (blanks between the row index and the sign position of the first number may be included)
            fail('start_of_values', 'values start at %r, the first printed number starts at %d' % (start, ostart), classify=True)
            return 'start-wrong'
        try:
            keypos = obj.key_positions(line[:start], nkeys)
        except Exception as ex:
            fail('key_positions:raises', 'key_positions raised %s: %s' % (type(ex).__name__, _extext(ex))); return 'keypos-raises'
        if keypos != okeypos[li]:
            fail('key_positions', 'key positions %r, printed names are at %r' % (keypos, okeypos[li])); return 'keypos-wrong'
        if obj.simulator == 'AUTOUGH2':
            row_format = {'key': keypos, 'values': [start]}
        else:
            try:
                numpos = obj.parse_table_line(line, start, cols)
            except Exception as ex:
                fail('parse_table_line:raises', 'parse_table_line raised %s: %s' % (type(ex).__name__, _extext(ex)), classify=True)
                return 'parse-raises'
            row_format = {'key': keypos, 'index': keypos[-1] + 5, 'values': numpos}
        table = L.listingtable(cols, list(allkeys), row_format, None, num_keys=nkeys,
                               allow_reverse_keys=(kind == 'connection'))
        if first:
            samples.append(dict(file=rel, table=kind, simulator=obj.simulator, columns=cols, variant=vtag,
                                window=window, longest_row=repr(line)[:260], row_format=repr(row_format)))
        # ---- read rows as read_table_* does
        outcome = 'checked'
        for k in [li] + others:
            rl = sy[k]
            okey = tuple(cc.fix_name(texts[k][p:p + 5]) for p in okeypos[k])
            if nkeys == 1: okey = okey[0]
            try:
                if obj.simulator == 'AUTOUGH2':
                    key = allkeys[rowidx[k]]   # read_table_AUTOUGH2 addresses rows by position
                    vals = obj.read_table_line_AUTOUGH2(rl, fmt=row_format)
                    table[rowidx[k]] = vals
                    gotkey = table.key_from_line(rl)
                else:
                    gotkey = key = table.key_from_line(rl)
                    vals = obj.read_table_line(rl, ncols, row_format)
                    table[key] = vals
            except sym.EngineAbort: raise
            except Exception as ex:
                fail('read:raises', 'reading row %d raised %s: %s' % (k, type(ex).__name__, _extext(ex)), row=k)
                return 'read-raises'
            if gotkey != okey:
                fail('key', 'row %d keyed %r, printed names %r' % (k, gotkey, okey), row=k); return 'key-wrong'
            by_name, by_index = table[key], table[rowidx[k]]
            # a row index that is a numpy integer (what np.argmax of a column gives) addresses the same row
            # (once per file and table: base variant, first sign window; the other obligations go on regardless)
            if variant is None and (not window or window[0] == 0) and k == li:
                try:
                    by_np = table[_numpy.int64(rowidx[k])]
                    if by_np is None or by_np['key'] != allkeys[rowidx[k]] or any(by_np[col] is not by_index[col] and not (by_np[col] == by_index[col]) is True for col in cols):
                        fail('addressing:numpy-index', 'table[numpy.int64(%d)] is not the row table[%d] returns' % (rowidx[k], rowidx[k]), row=k)
                except sym.EngineAbort: raise
                except Exception as ex:
                    fail('addressing:numpy-index', 'table[numpy.int64(%d)] raised %s: %s' % (rowidx[k], type(ex).__name__, _extext(ex)), row=k)
            if by_name is None or by_name['key'] != key or by_index['key'] != allkeys[rowidx[k]]:
                fail('addressing:key', 'row %d: table[name] / table[index] do not return the row' % k, row=k); return 'addr-wrong'
            rev = table[key[::-1]] if (kind == 'connection' and nkeys == 2 and key[::-1] not in table._row) else None
            # alignment of this row's printed numbers with the columns (right ends, Fortran fields)
            tk = toks[k]
            if any(t['end'] != lends[j] for j, t in enumerate(tk) if j < len(lends)) or len(tk) > ncols:
                if k == li and len(tk) > ncols:
                    fail('columns', 'longest row has %d numbers, header has %d columns' % (len(tk), ncols), row=k); return 'ncols'
                notes.append('row %d of %s/%s: printed numbers not right-aligned with the longest row; row skipped' % (k, rel, kind))
                continue
            items = []
            valforms = {}
            for j, col in enumerate(cols):
                a, b, cc_ = by_name[col], by_index[col], table[col][rowidx[k]]
                if _is_nan(a):
                    fail('nan:%s' % col, 'row %d column %s read as nan' % (k, col), row=k, classify=True); return 'nan'
                if j < len(tk):
                    exp, (lo, hi), oparts = expected[k][j]
                else:
                    exp, (lo, hi), oparts = z3.RealVal(0), (0, 0), None
                ae = sym.lift_real(a)
                rparts = strs.num_parts(ae)
                if rparts is not None and oparts is not None:
                    # same sign, same digit string, same decimal exponent (implies the same value; linear)
                    f = z3.And(rparts[0] == oparts[0], rparts[1] == oparts[1], rparts[2] == oparts[2])
                else:
                    f = ae == exp
                if not z3.is_true(z3.simplify(f)):
                    distinct.add(('%s:%d' % (col, k), z3.simplify(f).hash()))
                valforms['col:%s' % col] = (lo, hi, ae, exp, rparts, oparts, f)
                items.append((f, 'col:%s' % col))
                items.append((sym.lift_real(b) == ae, 'addressing:index:%s' % col))
                items.append((sym.lift_real(cc_) == ae, 'addressing:column:%s' % col))
                if rev is not None:
                    items.append((sym.lift_real(rev[col]) == -ae, 'addressing:reverse:%s' % col))
            bad = c.prove_all(items)
            # the component-wise form is sufficient, not necessary: a cell only fails if the VALUES can differ
            confirmed = []
            for lab, r in bad:
                fl = ([f_ for f_ in c.failures if f_['label'] == lab] or [None])[-1]
                m = fl['model'] if fl is not None else None
                if lab in valforms and r == 'sat':
                    m = _confirm(c, lab, *valforms[lab])
                    if m is None: continue
                confirmed.append((lab, r, m)); break
            bad = confirmed
            if bad:
                lab, _, m = bad[0]
                if bad[0][1] == 'sat' and m is not None:
                    failures.append(dict(
                        key='%s/%s:%s' % (base_key, lab, _trigger(concretize(m, sy[li], texts[li]), toks[li], cols)), what='%s %s table (%s): row %d, %s differs from the printed number' % (rel, kind, vtag, k, lab),
                        replay=dict(file=rel, kind=kind, header=tab['header'], nkeys=nkeys, int_first=int_first,
                                    longest=concretize(m, sy[li], texts[li]), longest_tokens=toks[li],
                                    rows=[dict(index=rowidx[kk], text=concretize(m, sy[kk], texts[kk]), tokens=toks[kk], keypos=okeypos[kk])
                                          for kk in [li] + others],
                                    allkeys=[list(x) if isinstance(x, tuple) else x for x in allkeys],
                                    stage=lab, row=k, variant=vtag)))
                outcome = 'value-differs'
                break
        if first:
            r, _ = c.reachable()
            if r != 'sat': return 'unreachable'
        return outcome

    res = sym.explore(h, sym.Ctx(timeout_ms=30000), max_paths=5000)
    ok_paths = [p for p in res['paths'] if p.outcome not in ('unreachable',)]
    extra = dict(distinct_obligations=len(distinct), notes=sorted(set(notes))[:6], simulator=obj.simulator)
    if not ok_paths: extra['vacuous'] = True
    return report.summarize(_name(rel, kind, window, variant), res, failures, samples, extra=extra)


# ---------------------------------------------------------------------------
# row names: the real setup_table_* and read_table_* on a miniature table in memory

def _dig(e): return z3.And(e >= 48, e <= 57)

_FILES2 = {}
def time2_rows(rel, kind):
    """rows of the table `kind` at the second result time of a shipped TOUGH2-family file
    (first block, by the independent extractor), or None."""
    if rel not in _FILES2:
        _FILES2[rel] = cc.extract_tables(os.path.join(ROOT, rel), skip_times=1)[1]
    for t in _FILES2[rel]:
        if t['kind'] == kind: return t
    return None


def setup_rows(rel, ti, nother, pick=None):
    """rows of the miniature table of task_setup: the longest row of the first block and
    `nother` others (pick = 'width-change': the longest row, the first row that prints fewer
    numbers at the second result time than at the first, and the first that prints more),
    restricted to distinct printed names and distinct row indices, in file order."""
    fam, tabs = file_tables(rel)
    tab = tabs[ti]
    rows = tab['rows']
    int_first = tab['colnames0'] == 'I'
    li, others = cc.choose_rows(rows, nother)
    tl = cc.tokenize_row(rows[li], int_first)
    vstart = tl[0]['start']
    t2 = time2_rows(rel, tab['kind']) if fam != 'AUTOUGH2' else None
    rows2 = {}
    if t2 is not None and t2['header'] == tab['header']:
        for r in t2['rows']: rows2.setdefault(r[:vstart], r)
    changes = []
    for k, r in enumerate(rows):
        r2 = rows2.get(r[:vstart])
        if r2 is None: continue
        a, b = len(cc.tokenize_row(r, int_first)), len(cc.tokenize_row(r2, int_first))
        if a != b: changes.append((k, a, b))
    if pick == 'width-change':
        others = [k for k, a, b in changes if b < a and k != li][:1] + [k for k, a, b in changes if b > a and k != li][:1]
    toks = {k: cc.tokenize_row(rows[k], int_first) for k in [li] + others}
    kp = cc.printed_keys(rows[li], vstart, tab['nkeys'])
    if kp is None: raise ValueError('extractor found no printed names in the longest row of %s/%s' % (rel, tab['kind']))
    sel, seen_names, seen_idx = [], set(), set()
    for k in sorted([li] + others):
        nm = tuple(rows[k][p:p + 5] for p in kp)
        ix = cc.row_index_value(rows[k], toks[k][0]['start'])
        if nm in seen_names or ix in seen_idx or ix is None: continue
        seen_names.add(nm); seen_idx.add(ix); sel.append(k)
    return dict(fam=fam, tab=tab, rows=rows, li=li, sel=sel, kp=kp, vstart=vstart, int_first=int_first,
                rows2=rows2, changes=changes)


def width_base(R, ncols):
    """(row, tokens) whose number fields are used for the rows of chosen widths: the longest
    row, its last field repeated up to the number of header columns; None when no row of the
    block prints two numbers or the rows do not start their numbers in one column."""
    rows, li, int_first = R['rows'], R['li'], R['int_first']
    if int_first: return None
    tl = cc.tokenize_row(rows[li], int_first)
    if any(cc.tokenize_row(rows[k], int_first)[0]['start'] != R['vstart'] for k in R['sel']): return None
    base = cc.extend_row(rows[li], tl, ncols)
    if base is None: return None
    bt = cc.tokenize_row(base, int_first)
    if len(bt) != max(len(tl), ncols): return None
    return base, bt


def _wtag(w): return 'as-printed' if w is None else ','.join(str(x) for x in w)


def task_setup(rel, ti, symrow, nother, widths=None, widths2=None, pick=None, symnames=True):
    """The real setup_table_AUTOUGH2 / setup_table_TOUGH2 (as bound by detect_simulator)
    builds the table from a miniature listing table holding the chosen rows; then the real
    read_table_* fills it, and fills it AGAIN from the same table as printed at a second
    result time (the table object, its inferred layout and its cell store are reused at every
    time).  In row number `symrow` of that table the name characters in columns 3, 4, 5 of
    every key are symbolic (column 3: the printed character or any digit; column 4: blank or
    any digit; column 5: any digit) and the digits of its numbers are symbolic, with
    independent digits at the two times.
    widths / widths2: number of numbers printed in each row at the first / second time (tables
    that may print incomplete lines: the names and index of the row followed by that many
    number fields of the longest row's layout); None = the rows as printed in the file (second
    time: the rows of the same names at the file's second result time when it has one, else
    the first-time text with fresh digits).
    Obligations: every row name is the tuple of repaired (a3,i2) forms of the printed names -
    single- and multi-key tables alike -, the table addressed by that name returns the row
    addressed by index, and after each of the two reads every cell is the number printed in that
    row and column AT THAT TIME (blank trailing cells 0).
    symnames = False: names as printed (the width shapes; the symbolic names fork every lookup)."""
    ld = _load()
    R = setup_rows(rel, ti, nother, pick)
    fam, tab, rows, li, sel, kp = R['fam'], R['tab'], R['rows'], R['li'], R['sel'], R['kp']
    kind = tab['kind']
    obj = reader_object(ld, rel)
    nkeys, cols = parse_header(obj, tab['header'])
    int_first = R['int_first']
    # ---- printed text of the rows at the two times
    text1, text2 = {}, {}
    if widths is not None or widths2 is not None:
        wb = width_base(R, len(cols))
        if wb is None: raise ValueError('no rows of chosen widths for %s/%s' % (rel, kind))
        base, bt = wb
    for i, k in enumerate(sel):
        text1[k] = rows[k] if widths is None else cc.row_of_width(rows[k], base, bt, widths[i])
        if widths2 is not None: text2[k] = cc.row_of_width(rows[k], base, bt, widths2[i])
        elif widths is None and rows[k][:R['vstart']] in R['rows2']: text2[k] = R['rows2'][rows[k][:R['vstart']]]
        else: text2[k] = text1[k]
    second = 'chosen-widths' if widths2 is not None else ('file-time-2' if any(text2[k] is not text1[k] for k in sel) else 'same-text')
    toks1 = {k: cc.tokenize_row(text1[k], int_first) for k in sel}
    toks2 = {k: cc.tokenize_row(text2[k], int_first) for k in sel}
    toks_all = toks1
    if fam != 'AUTOUGH2':
        order = sorted(range(len(sel)), key=lambda i: cc.row_index_value(text1[sel[i]], toks1[sel[i]][0]['start']))
    else:
        order = list(range(len(sel)))
    sr = min(symrow, len(sel) - 1)
    ks = sel[sr]
    text = text1[ks]
    # symbolic row (first time), and the same row at the second time: same names, fresh digits
    srow, cons = symbolize('s', text, toks1[ks], set())
    cells = list(srow.cells)
    for p in (kp if symnames else ()):
        for off, dom in ((2, ({ord(text[p + 2])} | _DIG)), (3, ({32} | _DIG)), (4, _DIG)):
            e = z3.Int('s.k%d' % (p + off))
            dom = frozenset(dom)
            cells[p + off] = strs.DChar(e, dom)
            cons.append(z3.Or(*[e == d for d in sorted(dom)]) if len(dom) != 10 else _dig(e))
    srow = SStr(cells)
    srow2, cons2 = symbolize('t', text2[ks], toks2[ks], set())
    cells2 = list(srow2.cells)
    for p in kp:
        if text2[ks][p:p + 5] != text[p:p + 5]: raise ValueError('names of row %d differ between the two times' % ks)
        for off in (2, 3, 4): cells2[p + off] = cells[p + off]
    srow2 = SStr(cells2)
    cons += cons2
    expected = [expected_term(cells, t) for t in toks1[ks]]
    expected2 = [expected_term(cells2, t) for t in toks2[ks]]
    def raw_codes(k):
        src = cells if k == ks else list(rows[k])
        return [[strs.cell_code(src[p + j]) for j in range(5)] for p in kp]
    def repaired(codes):
        out = list(codes)
        out[3] = z3.If(z3.And(_dig(out[2]), _dig(out[4]), out[3] == 32), z3.IntVal(48), out[3])
        return out
    onames = {k: [repaired(c5) for c5 in raw_codes(k)] for k in sel}       # oracle: codes of the repaired names
    def as_name(k):
        """the oracle name as a string object usable as a table key"""
        parts = []
        for c5 in onames[k]:
            cs = []
            for j, e in enumerate(c5):
                e = z3.simplify(e)
                cs.append(chr(e.as_long()) if z3.is_int_value(e) else strs.DChar(e, ({32} | _DIG) if j == 3 else frozenset(range(32, 127))))
            parts.append(strs._mk(cs))
        return parts[0] if nkeys == 1 else tuple(parts)
    # names of the table are pairwise distinct (assumed: two rows with one name are not addressable by name)
    distinct = []
    for a in sel:
        if a == ks: continue
        distinct.append(z3.Or(*[z3.simplify(x != y) for ca, cb in zip(onames[a], onames[ks]) for x, y in zip(ca, cb)]))
    lines, first = cc.mini_table_lines(fam, kind, tab['header'], tab['between'], [srow if k == ks else text1[k] for k in sel])
    lines2, _ = cc.mini_table_lines(fam, kind, tab['header'], tab['between'], [srow2 if k == ks else text2[k] for k in sel])
    failures, samples, dist = [], [], set()
    shaped = widths is not None or widths2 is not None
    if shaped: base_key = '%s/%s/widths(%s)->(%s)' % (rel, kind, _wtag(widths), _wtag(widths2))
    elif pick: base_key = '%s/%s/%s' % (rel, kind, pick)
    else: base_key = '%s/%s/rownames' % (rel, kind)

    def h(c):
        for con in cons: c.add(con)
        for d in distinct: c.add(d)
        def rdata(m, stage):
            return dict(mode='setup', file=rel, kind=kind, family=fam, header=tab['header'], between=tab['between'],
                        rows=[concretize(m, srow, text) if k == ks else text1[k] for k in sel],
                        rows2=[concretize(m, srow2, text2[ks]) if k == ks else text2[k] for k in sel],
                        tokens=[toks1[k] for k in sel], tokens2=[toks2[k] for k in sel],
                        keypos=kp, nkeys=nkeys, stage=stage, second=second)
        def fail(stage, what, formula=False):
            r = c.prove(formula, stage)
            if r == 'sat':
                m = c.failures[-1]['model']
                failures.append(dict(key='%s/%s' % (base_key, stage), what='%s %s table: %s' % (rel, kind, what),
                                     replay=rdata(m, stage)))
            return r
        obj._file = cc.LineFile(lines)
        obj._table, obj._tablenames, obj.title, obj.skip_tables = {}, [], 'C05 MINIATURE TABLE', []
        try:
            obj.setup_table(kind)
        except sym.EngineAbort: raise
        except Exception as ex:
            fail('setup:raises', 'setup_table raised %s: %s' % (type(ex).__name__, _extext(ex))); return 'setup-raises'
        table = obj._table[kind]
        if len(table.row_name) != len(sel):
            fail('rows', 'table has %d rows, %d were printed' % (len(table.row_name), len(sel))); return 'rows'
        items = []
        for pos, i in enumerate(order):
            k = sel[i]
            got = table.row_name[pos]
            got = [got] if nkeys == 1 else list(got)
            if len(got) != nkeys:
                fail('row-name', 'row name %r is not a %d-tuple' % (got, nkeys)); return 'name-shape'
            for g, c5 in zip(got, onames[k]):
                gc = [strs.cell_code(x) for x in (g.cells if isinstance(g, SStr) else list(g))]
                f = z3.And(*[x == y for x, y in zip(gc, c5)]) if len(gc) == 5 else z3.BoolVal(False)
                fs = z3.simplify(f)
                if not z3.is_true(fs): dist.add(('name', k, fs.hash()))
                items.append((f, 'row-name'))
        bad = c.prove_all(items)
        if bad:
            m = ([f_ for f_ in c.failures if f_['label'] == 'row-name'] or [dict(model=None)])[-1]['model']
            failures.append(dict(key='%s/row-name' % base_key,
                                 what='%s %s table: a row name is not the repaired form of the printed name(s)' % (rel, kind),
                                 replay=rdata(m, 'row-name')))
            return 'name-differs'
        # fill the table with the real read_table_*, at the first time and then at the second
        for tname, tlines, ttext, ttoks, texp in (('', lines, text1, toks1, expected), ('time2:', lines2, text2, toks2, expected2)):
            obj._file = cc.LineFile(tlines)
            try:
                obj.read_table(kind)
            except sym.EngineAbort: raise
            except Exception as ex:
                fail(tname + 'read:raises', 'read_table raised %s: %s' % (type(ex).__name__, _extext(ex))); return 'read-raises'
            items = []
            for pos, i in enumerate(order):
                k = sel[i]
                by_name = table[as_name(k)]
                by_index = table[pos]
                if by_name is None:
                    fail(tname + 'addressing:name', 'table[repaired printed name] of row %d is None' % pos); return 'lookup-none'
                tk = ttoks[k]
                if len(tk) > len(cols):
                    fail(tname + 'columns', 'row %d prints %d numbers, the header has %d columns' % (pos, len(tk), len(cols))); return 'ncols'
                for j, col in enumerate(cols):
                    a, b = by_name[col], by_index[col]
                    if _is_nan(a) or _is_nan(b):
                        fail(tname + 'nan', 'row %d column %s read as nan' % (pos, col)); return 'nan'
                    items.append((sym.lift_real(a) == sym.lift_real(b), tname + 'addressing:name-vs-index'))
                    if k == ks:
                        if j < len(texp):
                            exp, _, oparts = texp[j]
                            rparts = strs.num_parts(sym.lift_real(b))
                            f = z3.And(*[x == y for x, y in zip(rparts, oparts)]) if rparts is not None else (sym.lift_real(b) == exp)
                            dist.add((tname + 'val', j, z3.simplify(f).hash()))
                        else:
                            f = sym.lift_real(b) == 0
                            if not z3.is_true(z3.simplify(f)): dist.add((tname + 'blank', j, z3.simplify(f).hash()))
                    else:
                        want = cc.token_text_value(ttext[k].rstrip('\r\n'), tk[j]) if j < len(tk) else 0.0
                        if isinstance(b, (int, float)): f = bool(b == want)
                        else: f = sym.lift_real(b) == sym.lift_real(want)
                    items.append((f, tname + 'value'))
            bad = c.prove_all(items)
            if bad:
                lab = bad[0][0]
                m = ([f_ for f_ in c.failures if f_['label'] == lab] or [dict(model=None)])[-1]['model']
                klab = lab
                if tname and max(len(toks2[k]) for k in sel) > max(len(toks1[k]) for k in sel):
                    # input class: a row prints more numbers at the second time than any row did when the table was set up
                    klab = lab + ':row-wider-than-table-at-first-time'
                failures.append(dict(key='%s/%s' % (base_key, klab), what='%s %s table: %s fails after setup_table + read_table%s' % (
                                         rel, kind, lab, ' at the first and then the second result time' if tname else ''),
                                     replay=rdata(m, lab)))
                return 'differs'
        if not samples:
            samples.append(dict(file=rel, table=kind, simulator=obj.simulator, rows=len(sel), symbolic_row=repr(srow)[:200],
                                second_time=second, symbolic_row_time2=repr(srow2)[:200],
                                widths=[len(toks1[k]) for k in sel], widths_time2=[len(toks2[k]) for k in sel],
                                row_names=repr(table.row_name)[:300], row_format=repr(table.row_format)[:200]))
            r, _ = c.reachable()
            if r != 'sat': return 'unreachable'
        return 'checked'

    res = sym.explore(h, sym.Ctx(timeout_ms=30000), max_paths=3000)
    extra = dict(distinct_obligations=len(dist), simulator=obj.simulator, second_time=second)
    if not [p for p in res['paths'] if p.outcome != 'unreachable']: extra['vacuous'] = True
    nm = '%s/%s/%s/row%d' % (rel, kind, base_key.split('/')[-1], sr)
    return report.summarize(nm, res, failures, samples, extra=extra)


def _name(rel, kind, window, variant):
    return '%s/%s/w%s/%s' % (rel, kind, 'all' if window is None else '%d-%d' % (window[0], window[-1]) if window else 'none',
                             'base' if variant is None else 'noE@%s:%d' % variant)


# ---------------------------------------------------------------------------

def windows(ntok, K):
    if ntok <= K: return [tuple(range(ntok))]
    out = []
    a = 0
    while a < ntok:
        b = min(ntok, a + K)
        out.append(tuple(range(max(0, b - K), b)))
        a = b
    return out


QUICK_CONNECTION = ('AUTOUGH2/1/case1.listing', 'TOUGH2/3/OUTFILE', 'TOUGHplus/1/case1.dat')

def build_tasks(tier):
    K = 3 if tier == 'quick' else 5
    nother = 2 if tier == 'quick' else 6
    tasks = []
    files = cc.listing_files(REPO)
    ntables = 0
    for rel in files:
        fam, tabs = file_tables(rel)
        sel = list(range(len(tabs))) if tier == 'thorough' else list(range(min(1, len(tabs))))
        if tier == 'quick' and rel in QUICK_CONNECTION:
            # one connection table per simulator family too (two names per row, reversed-key addressing)
            sel += [i for i, t in enumerate(tabs) if t['kind'] == 'connection'][:1]
        for ti in sel:
            tab = tabs[ti]
            ntables += 1
            int_first = tab['colnames0'] == 'I'
            li, others = cc.choose_rows(tab['rows'], nother)
            tl = cc.tokenize_row(tab['rows'][li], int_first)
            ws = [None] if fam == 'AUTOUGH2' else windows(len(tl), K)
            for w in ws:
                tasks.append((task_table, dict(rel=rel, ti=ti, window=w, variant=None, nother=nother)))
            if not others: continue
            # exponent-form variants (three-digit exponent, letter dropped)
            to = cc.tokenize_row(tab['rows'][others[0]], int_first)
            cand_o = [j for j, t in enumerate(to) if apply_noE(tab['rows'][others[0]], t)]
            cand_l = [j for j, t in enumerate(tl) if apply_noE(tab['rows'][li], t)]
            def pick(c):
                if not c: return []
                if tier == 'quick': return [c[len(c) // 2]]
                return sorted(set([c[0], c[len(c) // 2], c[-1]]))
            for j in pick(cand_o):
                tasks.append((task_table, dict(rel=rel, ti=ti, window=(), variant=('other', j), nother=nother)))
            if tier == 'thorough':
                for j in pick(cand_l):
                    w = tuple(x for x in (j, j + 1) if 0 <= x < len(tl))     # its own sign and the sign after it
                    tasks.append((task_table, dict(rel=rel, ti=ti, window=w if fam != 'AUTOUGH2' else None,
                                                   variant=('longest', j), nother=nother)))
    # row names: real setup_table_* + read_table_* on a miniature table (task_setup)
    for rel in files:
        fam, tabs = file_tables(rel)
        if tier == 'thorough': sel = list(range(len(tabs)))
        else:
            # quick: the first table and the first table with two names per row (connection / generation)
            sel = list(range(min(1, len(tabs)))) + [i for i, t in enumerate(tabs) if t['nkeys'] == 2][:1]
        for ti in sel:
            for sr in ((1,) if tier == 'quick' else (0, 1, 2)):
                tasks.append((task_setup, dict(rel=rel, ti=ti, symrow=sr, nother=2)))
    # row widths and result times (task_setup with chosen widths): generation tables of the TOUGH2
    # family may print incomplete lines (table_expected_floats), so the number of numbers printed in
    # each row - at the time the table is set up and at a later time - is a shape of its own
    nshape = nchange = 0
    for rel in files:
        fam, tabs = file_tables(rel)
        if fam == 'AUTOUGH2': continue
        for ti, t in enumerate(tabs):
            R = setup_rows(rel, ti, 2)
            if t['kind'] == 'generation':
                for w1, w2 in width_shapes(rel, ti, tier):
                    for sr in range(len(w1)):
                        tasks.append((task_setup, dict(rel=rel, ti=ti, symrow=sr, nother=2, widths=w1, widths2=w2, symnames=False)))
                        nshape += 1
            # rows whose printed width differs between the first two result times of the shipped file
            if any(k != R['li'] for k, a, b in R['changes']):
                for sr in (0, 1, 2):
                    tasks.append((task_setup, dict(rel=rel, ti=ti, symrow=sr, nother=2, pick='width-change')))
                    nchange += 1
    return tasks, len(files), ntables, K, nother, nshape, nchange


def width_shapes(rel, ti, tier):
    """[(widths at the first time, widths at the second time)] for the rows of the miniature table:
    every order of three different widths (shortest / middle / full number of header columns;
    thorough: also the three largest), so that the longest row stands first, in the middle and
    last with the other two in both orders; at the second time the widths are rotated by one row,
    so that every row changes its width and at least one prints fewer numbers than before."""
    import itertools
    R = setup_rows(rel, ti, 2)
    obj = reader_object(_load(), rel)
    nkeys, cols = parse_header(obj, R['tab']['header'])
    wb = width_base(R, len(cols))
    if wb is None: return []
    n, nsel = len(wb[1]), len(R['sel'])
    if n < 2: return []
    sets = [sorted(set([1, (n + 1) // 2, n]))]
    if tier == 'thorough' and n >= 3 and sorted(set([n - 2, n - 1, n])) not in sets: sets.append([n - 2, n - 1, n])
    out = []
    for W in sets:
        if nsel == 1: multis = [(W[-1],)] + ([(W[0],)] if tier == 'thorough' and W is sets[0] else [])
        elif nsel == 2: multis = [(W[0], W[-1])]
        elif len(W) >= 3: multis = [tuple(W[:3])]
        else: multis = [(W[0], W[1], W[1])] + ([(W[0], W[0], W[1])] if tier == 'thorough' else [])
        for ms in multis:
            for w1 in sorted(set(itertools.permutations(ms))):
                if nsel == 1: w2 = (W[0],) if w1[0] != W[0] else (W[-1],)
                else: w2 = w1[1:] + w1[:1]
                if (w1, w2) not in out: out.append((w1, w2))
    return out


def validate_reader(rep, limit=2500):
    """Differential validation of the numeric-cell reader (vx.strs._numcells_read)
    against CPython's float(): slices of the shipped rows (each printed number, and the
    same slice shifted / widened by one character) are read with their digits (and a
    leading sign position) symbolic; acceptance must agree with float() of the printed
    text, and the (sign, digits, exponent) terms evaluated at the printed characters
    must give float()'s value.  A disagreement is a harness error, not a finding."""
    c = sym.Ctx(); sym.set_ctx(c)
    n = bad = 0
    try:
        for rel in cc.listing_files(REPO):
            fam, tabs = file_tables(rel)
            for tab in tabs:
                int_first = tab['colnames0'] == 'I'
                li, others = cc.choose_rows(tab['rows'], 2)
                for k in [li] + others[:1]:
                    text = tab['rows'][k]
                    for t in cc.tokenize_row(text, int_first):
                        for a, b in ((t['start'], t['end']), (t['start'], t['end'] + 1), (t['start'] + 1, t['end']),
                                     (max(0, t['start'] - 1), t['end'] - 1), (t['start'], len(text))):
                            if n >= limit: return n, bad
                            sl = text[a:b]
                            cells, subs = [], []
                            for i, ch in enumerate(sl):
                                if ch.isdigit():
                                    e = z3.Int('v.d%d' % i); cells.append(strs.DChar(e, _DIG)); subs.append((e, z3.IntVal(ord(ch))))
                                elif i == 0 and ch in ' -' and len(sl) > 1 and (sl[1].isdigit() or sl[1] == '.'):
                                    e = z3.Int('v.s%d' % i); cells.append(strs.DChar(e, _SGN)); subs.append((e, z3.IntVal(ord(ch))))
                                else: cells.append(ch)
                            if not subs: continue
                            try: want = float(sl)
                            except ValueError: want = None
                            try: got = strs.sfloat(SStr(cells))
                            except ValueError: got = None
                            n += 1
                            ok = (want is None) == (got is None)
                            if ok and got is not None:
                                parts = strs.num_parts(got)
                                if parts is None: ok = False
                                else:
                                    sg, M, E = [z3.simplify(z3.substitute(x, *subs)).as_long() for x in parts]
                                    try: val = float(sg * M * Fraction(10) ** E)
                                    except OverflowError: val = float('inf') * sg
                                    ok = (val == want) or (val == 0 and want == 0)
                            if not ok:
                                bad += 1
                                if bad <= 5: rep.harness_error('numeric-cell reader disagrees with float() on %r of %s' % (sl, rel))
        return n, bad
    finally:
        sym.set_ctx(None)
        rep.validated(n)


# ---------------------------------------------------------------------------
# FILE-LEVEL TASKS (round 4; built on the C06 machinery): the real reader on a line file of a shipped
# listing, opened with every enumerated subset of skip_tables (and under another file name); at every
# result time, reached by a non-negative and by a negative index, every table that is exposed holds
# the numbers printed for that time.

import itertools as _it
import types as _types


def skip_subsets(tnames, tier):
    """the skip_tables shapes: every subset of the file's tables (quick, more than 3 tables: subsets of at most 2
    tables, all but the last table, and all tables)"""
    subs = []
    for k in range(len(tnames) + 1):
        for c in _it.combinations(tnames, k): subs.append(list(c))
    if tier == 'quick' and len(tnames) > 3:
        subs = [s for s in subs if len(s) <= 2 or len(s) >= len(tnames) - 1][:14] + [list(tnames)]
    out = []
    for s in subs:
        if s not in out: out.append(s)
    return out


def task_file_skip(rel, tier, alias=None):
    from harness import C06
    from harness import c06_common as c6
    ld = C06._load()
    P = C06.prepare(rel)
    raw, sets, fullk, tables, oracle = P['raw'], P['sets'], P['fullk'], P['tables'], P['oracle']
    n = len(fullk)
    SF = C06.symbolic_file(P, headers=False)
    lines, cons, symlines = SF['lines'], SF['cons'], SF['symlines']
    budget = c6.budget(len(raw), len(sets))
    ks = C06.starts_for(P, tier)
    subsets = [[]] if alias else skip_subsets(P['tablenames'], tier)
    path = P['path'] if not alias else os.path.join(os.path.dirname(P['path']), alias)
    name = 'file/%s%s' % (rel, '/as=' + alias if alias else '/skip-subsets')
    failures, samples, distinct = [], [], set()
    counters = dict(readers=0, positions=0, reached=0, unattributed=0)

    def h(c):
        for con in cons: c.add(con)
        proven = set()

        def fail(skip, clause, what, k=None, model=None):
            key = 'file/%s/%s/%s' % (rel, ('as=' + alias) if alias else ('skip=' + ('+'.join(skip) if skip else 'none')), clause)
            if model is None:
                c.stats['obligations'] += 1
                r, _ = c.solve(z3.BoolVal(True))
                if r != 'sat':
                    c.stats['ob_unsat' if r == 'unsat' else 'ob_unknown'] += 1
                    return
                c.stats['ob_sat'] += 1
            failures.append(dict(key=key, what='%s: %s' % (rel, what),
                                 replay=dict(mode='fileskip', file=os.path.join('tests', 'listing', rel), skip_tables=list(skip), alias=alias,
                                             index=k, clause=clause, substitutions=SF['subs_for'](model, list(symlines)))))

        for skip in subsets:
            counters['readers'] += 1
            f = c6.LineFile(lines)
            ld.t2listing.io = _types.SimpleNamespace(open=lambda *a, **k_: f)
            f.arm(2 * budget)
            try:
                with C06._Alarm(120):
                    lst = ld.t2listing.t2listing(path, skip_tables=list(skip))
            except c6.NonTermination as ex:
                fail(skip, 'open:terminates', 't2listing(%r, skip_tables=%r) does not return: %s' % (os.path.basename(path), skip, ex)); continue
            except sym.EngineAbort: raise
            except Exception as ex:
                # (TOUGH2-MP output is recognised by its file name OUTPUT_DATA; under another name the reader may refuse it, but must return)
                if not (alias and P['simulator'] == 'TOUGH2_MP' and not alias.endswith('OUTPUT_DATA')):
                    fail(skip, 'open:no-exception', 't2listing(%r, skip_tables=%r) raised %s: %s' % (os.path.basename(path), skip, type(ex).__name__, _extext(ex)))
                else: counters['reached'] += 1
                continue
            finally:
                f.disarm()
            want = [t for t in P['tablenames'] if t not in skip]
            if list(lst._tablenames) != want or sorted(lst._table) != sorted(want):
                fail(skip, 'tables', 'with skip_tables=%r the reader exposes %r, the file prints %r' % (skip, list(lst._tablenames), P['tablenames'])); continue
            bad = False
            for k in ks:
                for kk in (k, k - n):
                    counters['positions'] += 1
                    f.arm(budget)
                    err = None
                    try:
                        with C06._Alarm(120): lst.index = kk
                    except c6.NonTermination as ex: err = ('index:terminates', 'does not return: %s' % ex)
                    except sym.EngineAbort:
                        f.disarm(); raise
                    except Exception as ex: err = ('index:no-exception', 'raised %s: %s' % (type(ex).__name__, _extext(ex)))
                    f.disarm()
                    if err:
                        fail(skip, err[0], 'skip_tables=%r: index = %d %s' % (skip, kk, err[1]), k=kk); bad = True; break
                    ik = fullk[k]
                    if not (lst.index == k and float(lst.time) == sets[ik]['time']):
                        fail(skip, 'index-time', 'skip_tables=%r: after index = %d the reader reports index %r, time %r (file: %d, %r)' % (
                            skip, kk, lst.index, lst.time, k, sets[ik]['time']), k=kk); bad = True; break
                    for tn in want:
                        tab = lst._table[tn]
                        for r in tables[tn]['rows']:
                            if oracle.get((tn, r, ik)) is None: continue
                            row = tab[r]
                            sig = (tn, r, ik) + tuple(id(row[col]) if isinstance(row[col], SReal) else row[col] for col in tab.column_name)
                            counters['reached'] += len(tab.column_name)
                            if sig in proven: continue
                            hit = C06.printed_check(c, P, SF, tn, r, ik, row, distinct, counters)
                            if hit is None: proven.add(sig); continue
                            fail(skip, 'printed-value' if kk >= 0 else 'negative-index:printed-value',
                                 'skip_tables=%r, index = %d: table %s row %d %s is not the number printed at that time' % (skip, kk, tn, r, hit[0]),
                                 k=kk, model=hit[1] if hit[1] is not None else None)
                            bad = True; break
                        if bad: break
                    if bad: break
                if bad: break
        if not samples:
            samples.append(dict(task=name, simulator=P['simulator'], tables=P['tablenames'], skip_subsets=subsets[:6], positions=ks))
        r, _ = c.reachable()
        if r != 'sat': return 'unreachable'
        return 'checked' if counters['reached'] or failures else 'nothing-reached'

    res = sym.explore(h, sym.Ctx(timeout_ms=10000), max_paths=3, profile_repo=False)
    extra = dict(distinct_obligations=len(distinct), simulator=P['simulator'], readers=counters['readers'], positions=counters['positions'],
                 symbolic_lines=len(symlines), file_tier=True)
    if not counters['reached'] and not failures: extra['vacuous'] = True
    seen, keep = {}, []
    for fl in failures:
        seen[fl['key']] = seen.get(fl['key'], 0) + 1
        if seen[fl['key']] <= 2: keep.append(fl)
    return report.summarize(name, res, keep, samples, extra=extra)


FILE_QUICK = ('AUTOUGH2/2/case2.listing', 'AUTOUGH2/3/case3.listing', 'AUTOUGH2/4/case4.listing', 'AUTOUGH2/5/case5.listing',
              'TOUGH2/2/rfp.listing', 'TOUGH2/8/OUTFILE', 'TOUGH2/11/case11.listing',
              'TOUGH2-MP/6/OUTPUT_DATA', 'TOUGH2-MP/7/OUTPUT_DATA', 'TOUGH3/2/OUTPUT', 'TOUGHREACT/2/case2.out',
              'TOUGHplus/1/case1.dat', 'TOUGHplus/4/t3T_out.dat')
FILE_ALIAS = {'TOUGH2-MP/7/OUTPUT_DATA': 'mp7_copy.listing', 'TOUGH2-MP/6/OUTPUT_DATA': 'perturbed_OUTPUT_DATA', 'TOUGH2/2/rfp.listing': 'OUTPUT_DATA',
              'TOUGH3/2/OUTPUT': 'copy.out', 'AUTOUGH2/3/case3.listing': 'OUTPUT_DATA'}


def file_tasks(tier):
    files = cc.listing_files(REPO)
    if tier == 'quick': files = [f for f in files if f.replace(os.sep, '/') in FILE_QUICK]
    only = [x for x in os.environ.get('C05_FILES', '').split(',') if x]
    if only: files = [f for f in cc.listing_files(REPO) if any(x in f for x in only)]
    tasks = []
    for rel in files:
        tasks.append((task_file_skip, dict(rel=rel, tier=tier)))
        al = FILE_ALIAS.get(rel.replace(os.sep, '/'))
        if al or (tier == 'thorough' and 'TOUGH2-MP' in rel):
            tasks.append((task_file_skip, dict(rel=rel, tier=tier, alias=al or 'renamed.listing')))
    return tasks, files


def run(tier, seed, rep):
    _load()
    nval, nbad = validate_reader(rep)
    tasks, nfiles, ntables, K, nother, nshape, nchange = build_tasks(tier)
    ftasks, ffiles = file_tasks(tier)
    if os.environ.get('C05_ONLY') == 'file': tasks = []
    if os.environ.get('C05_ONLY') == 'kernel': ftasks = []
    results = report.run_tasks(ftasks + tasks)
    rep.add_results(results)
    for r in results:
        if r.get('error'): continue
        if r.get('extra', {}).get('vacuous') and not r.get('extra', {}).get('skipped'):
            rep.harness_error('%s: no path reached the obligations' % r['name'])
        for n in r.get('extra', {}).get('notes', []):
            if n not in rep.outside: rep.outside.append(n)
    rep.bounds += [
        '%d shipped listing files (backup copies *~ skipped), %d tables (%s), rows from the first block of <= 60 result lines of each table: '
        'the longest row and %d other rows (most minus signs, shortest, first, last, ...)' % (
            nfiles, ntables, 'first table of each file, plus the first connection table of 3 files' if tier == 'quick' else 'first table of each kind in each file', nother),
        'every digit of every printed number (mantissa and exponent) is a symbolic digit 0..9, in the longest row and in the other rows',
        'sign positions over {blank, minus}: all of them at once in the rows that are read; in the longest row of TOUGH2-family tables '
        '(where each one forks parse_table_line) windows of %d consecutive columns at a time, all windows, the other signs as printed' % K,
        'exponent-form variants: one number at a time rewritten from E+dd to the letterless three-digit form +1dd (same width), '
        + ('in one other row' if tier == 'quick' else 'in one other row and in the longest row, at the first / middle / last E-form column'),
        'punctuation, block names and the row index stay as printed in those tasks',
        'row names (task_setup): the real setup_table_AUTOUGH2 / setup_table_TOUGH2 and read_table_* run on a miniature table of 3 rows '
        '(longest + 2 others) of ' + ('the first table and the first two-name table of each file; in the second row' if tier == 'quick' else
                                      'every table of each file; in each of the 3 rows in turn') +
        ' the characters in columns 3, 4, 5 of every name are symbolic (column 3: printed character or any digit, column 4: blank or any digit, '
        'column 5: any digit) together with the digits of its numbers; names of the other rows, columns 1-2 and the row index as printed',
        'two result times (every task_setup task): after the first read the real read_table_* fills the SAME table object again from the table '
        'as printed at a second time - the rows of the same names at the second result time of the shipped file where it has one (TOUGH2 family), '
        'else the first-time text - with the digits of the symbolic row independent of those at the first time; every cell must then be the '
        'number printed at the second time (blank trailing cells 0)',
        'row widths (%d tasks): for every generation table of the TOUGH2 family (which may print incomplete lines) the real setup_table_TOUGH2 / '
        'read_table_TOUGH2 run on miniature tables whose rows print chosen numbers of numbers: every order of three widths {1, middle, number of '
        'header columns}%s over the (<= 3) rows, and at the second time the widths rotated by one row (every row changes width, at least one prints '
        'fewer numbers than before); each row in turn has symbolic digits; names as printed' % (
            nshape, '' if tier == 'quick' else ' and of the three largest widths'),
        'rows of shipped tables whose printed width differs between the first two result times (%d tasks: TOUGH2/7 generation): longest row, first '
        'shrinking row, first growing row, read at the first and then the second time, each row in turn symbolic' % nchange,
    ]
    rep.outside += [
        'whole-file scanning: simulator detection is run concretely only to bind the per-simulator methods; setup_pos, setup_tables, '
        'internal headers, next_table, read_tables, skip_tables, moving between result times through the file (index / next / positions; '
        'only two successive reads of one table into the same table object are checked), more than two times, history() and the '
        'TOUGH2_MP row reordering / duplicate rows (row_line) are not part of this claim; setup_table_* / read_table_* are executed '
        'only on a miniature in-memory table of 3 rows (task_setup)',
        'choice of the longest row by setup_table_TOUGH2 on a full table (in task_table the harness takes the longest row of the first block itself; '
        'task_setup leaves the choice to the real code, on 3 rows, with all orders of three widths for generation tables)',
        'row widths other than printed are formed only for generation tables (the reader documents incomplete lines only there); rows of more than 3 '
        'different widths, trailing blanks after the last number of an incomplete line',
        'row index field (int(indexstr)) and rows beyond the first block of each table',
        'IEEE rounding of float(): values are exact rationals sign*digits*10^exponent',
    ]
    rep.assumptions += [
        'float()/int() of cells with concrete punctuation and symbolic digit/sign cells: accepted exactly when CPython accepts the skeleton '
        'with digits written as 0 (acceptance depends on character classes only); value = sign*digits*10^(exponent - fraction digits)',
        'pow10(k) = 10^k supplied as ground hypotheses over the exponent range of each number (only when a cell is re-examined by value)',
        'reader model validated against CPython float() on %d slices of the shipped rows (%d disagreements)' % (nval, nbad),
        're.finditer(escape(\'.\'), row) evaluated on the concrete punctuation (no symbolic cell can be a point)',
        'table header parsing (parse_table_header_*) and detect_simulator run concretely on the shipped text',
        'task_setup: the names of the rows of a table are pairwise distinct (asserted on the path); the in-memory file stub provides only '
        'readline/tell/seek on a list of lines; findall(\'\\.[0-9]+\') is counted on concrete points followed by a digit-class cell',
        'rows of chosen widths: names and index of the shipped row followed by the first w number fields of the longest row of the block, whose last '
        'field is repeated up to the number of header columns (fields of one table have one format); an incomplete line ends at its last number; '
        'the block names of a row are the same at both result times',
    ]
    rep.functions.update(['t2listing.py:t2listing.start_of_values', 't2listing.py:t2listing.key_positions',
                          't2listing.py:t2listing.parse_table_line', 't2listing.py:t2listing.read_table_line_TOUGH2',
                          't2listing.py:t2listing.read_table_line_AUTOUGH2', 't2listing.py:listingtable.key_from_line',
                          't2listing.py:listingtable.__getitem__', 't2listing.py:listingtable.__setitem__',
                          'fixed_format_file.py:fortran_float', 'mulgrids.py:fix_blockname', 'mulgrids.py:valid_blockname',
                          't2listing.py:t2listing.setup_table_AUTOUGH2', 't2listing.py:t2listing.setup_table_TOUGH2',
                          't2listing.py:t2listing.read_table_AUTOUGH2', 't2listing.py:t2listing.read_table_TOUGH2',
                          't2listing.py:t2listing.skip_to_results_line', 't2listing.py:t2listing.is_results_line'])
    rep.process_failures()
    return rep.finish(rule='one obligation per (file, table, sign window / exponent variant, path, row, column): pc AND pow10 facts AND '
                      'NOT(cell read by the real kernel == independent evaluation of the printed cells) must be unsat, plus the '
                      'three addressing agreements per cell; distinct = distinct non-constant value formulas by z3 AST hash')
