"""C09 - reordering, renaming and MINC do not change the physics.

Same construction as C08 (harness/gridsym.py): an arbitrary consistent t2grid
of a given shape is built directly from the real classes with symbolic block
names AND symbolic physical data (volumes, centres, per connection the two
distances, area, direction cosine, permeability direction, nad1/nad2); one
real operation runs; the physical description taken from the ordered lists
(what a data file would be written from) is compared with the description
before the operation, clause by clause, by z3.

  reorder   every block permutation, every connection permutation, every
            subset of connections listed reversed (choice made by forking on
            symbolic selector bits, so one task = one topology)
  rename    one-to-one symbolic maps (same precondition as C08); also maps typed
            the TOUGH2 way with fix_blocknames (names over letters, digits,
            blank), through t2grid.rename_blocks and t2data.rename_blocks
  minc      concrete fraction lists (lifted exactly), symbolic volumes
  embed     symbolic volumes of host and sub-grid
  fromgeo   grid produced by the real mulgrid.rectangular + t2grid.fromgeo
            with symbolic spacings, then reordered with reversals, or
            scrambled and put back with reorder(geo = geo)
"""
import contextlib
import io
import os
import itertools
import z3
from fractions import Fraction
from vx import sym, strs, loader, report
from vx.sym import SReal, SInt, SBool
from vx.strs import SStr, SChar
from harness import gridsym as G
from harness.gridsym import eqf, zb, z_and, z_or, z_not, name_value, num_value

PID = 'C09'
TOL = Fraction(1, 10 ** 12)

_LD = None
def _load():
    global _LD
    if _LD is None:
        _LD = loader.load(['t2grids', 't2data'])     # t2data: second entry point of rename_blocks
    return _LD


def req(a, b):
    """python bool / z3 Bool: two numbers (symbolic or not) are equal."""
    if a is None or b is None: return a is None and b is None
    e = z3.simplify(sym.lift_real(a) == sym.lift_real(b))
    if z3.is_true(e): return True
    if z3.is_false(e): return False
    return e


def vec_eq(a, b):
    if a is None or b is None: return a is None and b is None
    if len(a) != len(b): return False
    return z_and([req(x, y) for x, y in zip(a, b)])


def selector(c, name, n):
    """symbolic integer in [0,n) realised by forking on its bits (one path per value)."""
    if n <= 1: return 0
    nbits = (n - 1).bit_length()
    bits = [z3.Bool('%s.b%d' % (name, k)) for k in range(nbits)]
    c.add(z3.Sum(*[z3.If(b, 2 ** k, 0) for k, b in enumerate(bits)]) <= n - 1)
    v = 0
    for k in range(nbits - 1, -1, -1):
        if c.branch(bits[k]): v += 2 ** k
    return v


def within(x, target, scale):
    """|x - target| <= TOL * |scale| as a z3 Bool (scale's sign is known > 0 where used)."""
    x, t, s = sym.lift_real(x), sym.lift_real(target), sym.lift_real(scale)
    tol = z3.RealVal(TOL) * z3.If(s >= 0, s, -s)
    return z3.And(x - t <= tol, t - x <= tol)


# ---------------------------------------------------------------------------

def block_checks(snap, g, expect_names=None):
    """every block (object) keeps volume, rock type and centre (and name unless renamed)."""
    out = []
    for idx, (b, name, vol, rock, ctr) in enumerate(snap.blocks):
        parts = [req(b.volume, vol), b.rocktype is rock,
                 (b.centre is ctr) or vec_eq(b.centre, ctr)]
        out.append(('block-data', 'block %d keeps its volume, rock type and centre' % idx, z_and(parts)))
        if expect_names is None: nm = eqf(b.name, name)          # unchanged name
        else: nm = expect_names[idx]                              # ready-made formula "name == f(old name)"
        out.append(('block-name', 'block %d carries the expected name' % idx, nm))
    return out


def connection_checks(snap):
    """per connection object: unordered physical signature is unchanged.
    returns (clause, label, value, orientation)"""
    out = []
    for k, (con, blks, dist, area, dirn, dc, n1, n2) in enumerate(snap.cons):
        cb = list(con.block)
        same = len(cb) == 2 and cb[0] is blks[0] and cb[1] is blks[1]
        rev = len(cb) == 2 and cb[0] is blks[1] and cb[1] is blks[0]
        if not (same or rev):
            out.append(('joins-other-blocks', 'connection %d still joins its two blocks' % k, False, 'any')); continue
        ori = 'reversed-connection' if rev else 'same-orientation'
        ed = dist if same else dist[::-1]
        suffix = 'not-swapped' if rev else 'changed'
        out.append(('distances-' + suffix, 'connection %d: each block keeps its own distance to the interface' % k,
                    vec_eq(list(con.distance), list(ed)), ori))
        out.append(('dircos-' + ('not-negated' if rev else 'changed'),
                    'connection %d: the gravity cosine still designates the same upper block' % k,
                    req(con.dircos, dc if same else -dc), ori))
        out.append(('nad-' + suffix, 'connection %d: nad1/nad2 stay with their blocks' % k,
                    z_and([req(con.nad1, n1 if same else n2), req(con.nad2, n2 if same else n1)]), ori))
        out.append(('area-direction-changed', 'connection %d keeps interface area and permeability direction' % k,
                    z_and([req(con.area, area), req(con.direction, dirn)]), ori))
    return out


# ---------------------------------------------------------------------------
# tasks

def _finish_path(c, op, sh, checks, failures, distinct, samples, replay_of, perkey, klass_default='any'):
    """checks: list of (clause, label, value[, klass]).  Proves each, records failures."""
    rw, _ = c.reachable()              # reachability witness: the whole path condition is satisfiable
    if rw != 'sat':
        failures.append(dict(key='%s/VACUOUS' % op, what='path condition is %s' % rw, replay=dict(op='vacuous')))
        return
    if len(samples) < 1:
        nontriv = [(cl, lab, str(z3.simplify(v))[:160]) for cl, lab, v, *_ in checks if not isinstance(v, bool)]
        if nontriv: samples.append(dict(op=op, shape=G.shape_id(sh) if isinstance(sh, dict) else sh, example_obligation=nontriv[0]))
    seen = set()
    for item in checks:
        clause, label, val = item[0], item[1], item[2]
        kl = item[3] if len(item) > 3 else klass_default
        if not isinstance(val, bool): distinct.add((label, z3.simplify(val).hash()))
        r = c.prove(val, label)
        if r == 'sat' and (kl, clause) not in seen:
            seen.add((kl, clause))
            key = '%s/%s/%s' % (op, kl, clause)
            if perkey.get(key, 0) >= 2: continue
            perkey[key] = perkey.get(key, 0) + 1
            m = c.failures[-1]['model']
            failures.append(dict(key=key, what='%s on %s: NOT(%s)' % (op, G.shape_id(sh) if isinstance(sh, dict) else sh, label),
                                 replay=dict(replay_of(m), clause=clause, klass=kl, label=label)))


def task_reorder(sh, mode, profile=False):
    """mode 'connections': every connection permutation x every reversal subset (block list reversed);
            'blocks': every block permutation (all connections listed reversed, rotated)."""
    ld = _load(); T = ld.t2grids
    failures, samples, distinct, perkey = [], [], set(), {}
    reached = [0]
    nb, k = sh['nb'], len(sh['cons'])
    perms_c = list(itertools.permutations(range(k)))
    perms_b = list(itertools.permutations(range(nb)))
    kl_mode = {'only-blocks': 'block-names-only', 'only-connections': 'connection-names-only'}.get(mode, 'any')

    def h(c):
        p = G.build(c, T, sh, alpha='lower', phys=True)
        if mode == 'connections':
            pi = selector(c, 'cperm', len(perms_c))
            flips = [1 if c.branch(z3.Bool('flip%d' % q)) else 0 for q in range(k)]
            corder = list(perms_c[pi]); border = list(range(nb))[::-1]
        elif mode == 'both':      # every block permutation x every reversal subset (connection list rotated)
            pi = selector(c, 'bperm', len(perms_b))
            flips = [1 if c.branch(z3.Bool('flip%d' % q)) else 0 for q in range(k)]
            border = list(perms_b[pi]); corder = (list(range(k))[1:] + [0]) if k else []
        elif mode == 'only-connections':   # block_names omitted: the block list must stay as it is
            pi = selector(c, 'cperm', len(perms_c))
            flips = [1 if c.branch(z3.Bool('flip%d' % q)) else 0 for q in range(k)]
            corder = list(perms_c[pi]); border = list(range(nb))
        elif mode == 'only-blocks':        # connection_names omitted: the connection list must stay as it is
            pi = selector(c, 'bperm', len(perms_b))
            border = list(perms_b[pi]); corder = list(range(k)); flips = [0] * k
        else:
            pi = selector(c, 'bperm', len(perms_b))
            border = list(perms_b[pi]); corder = (list(range(k))[1:] + [0]) if k else []
            flips = [1] * k
        bn = [p.bnames[i] for i in border]
        cn = []
        for q in corder:
            i, j = sh['cons'][q]
            cn.append((p.bnames[j], p.bnames[i]) if flips[q] else (p.bnames[i], p.bnames[j]))
        snap = G.snapshot(p.g)
        raised = None
        give_b = mode != 'only-connections'
        give_c = bool(cn) and mode != 'only-blocks'
        try:
            p.g.reorder(bn if give_b else None, cn if give_c else None)
        except Exception as ex:
            raised = '%s: %r' % (type(ex).__name__, ex.args[:1])
        reached[0] += 1
        checks = [('raised', 'the operation completes on an input that satisfies its precondition (%s)' % raised, raised is None),
                  ('block-order', 'block list is the requested permutation of the same objects' if give_b else
                   'block list is unchanged when no block names are given',
                   [id(b) for b in p.g.blocklist] == [id(p.blocks[i]) for i in border])]
        checks += list_checks(snap, p.g, kl_mode)
        if cn:
            checks.append(('connection-order', 'connection list is the requested permutation of the same objects',
                           [id(x) for x in p.g.connectionlist] == [id(p.cons[q]) for q in corder]))
            # the orientation that was asked for is the one now stored
            for q in corder:
                i, j = sh['cons'][q]
                want = [p.blocks[j], p.blocks[i]] if flips[q] else [p.blocks[i], p.blocks[j]]
                checks.append(('orientation-not-honoured', 'connection %d is stored in the requested orientation' % q,
                               [id(b) for b in p.cons[q].block] == [id(b) for b in want]))
        checks += block_checks(snap, p.g)
        checks += connection_checks(snap)
        if raised: checks = checks[:1]        # nothing is claimed about the state an exception leaves behind
        def replay_of(m):
            return dict(op='reorder', pre=G.concrete_pre(m, p), args=dict(perm=border if give_b else None,
                                                                          cons=[[q, flips[q]] for q in corder] if give_c else None))
        _finish_path(c, 'reorder', sh, checks, failures, distinct, samples, replay_of, perkey,
                     klass_default=kl_mode)
        return 'ok'

    res = sym.explore(h, G.FastCtx(timeout_ms=30000), max_paths=3000, profile_repo=profile)
    tr = report.summarize('reorder/%s/%s' % (G.shape_id(sh), mode), res, failures, samples,
                          extra=dict(distinct_obligations=len(distinct), reached=reached[0]))
    if not reached[0]: tr['error'] = 'vacuous: no path reached the obligations'
    return tr


def task_rename(sh, m_, fix=False, then_reorder=False, alpha='lower', via='t2grid', invert=False, plain=(), profile=False):
    """alpha 'alnumsp' (letters, digits, blank): names that fix_blockname rewrites ('ab1 5' means 'ab105');
    then fix must be True, the map's precondition is stated on the fixed forms (as in C08) and the expected
    name of a block is fixed(v) when its old name is fixed(k).
    via 't2data': the same rename through t2data.rename_blocks (which fixes the map itself, optionally
    after inverting it: with invert the map handed over is {v: k}).
    plain: names of the map ('k0' = key of entry 0, 'w1' = target of entry 1) and block indices restricted to
    letters (a shape choice: WHICH names of the map can need fixing; keeps the number of paths down)."""
    ld = _load(); T = ld.t2grids
    from harness import C08
    failures, samples, distinct, perkey = [], [], set(), {}
    reached = [0]
    fixpre = alpha != 'lower'
    assert fix or not fixpre
    opname = {'t2grid': 'rename_blocks', 't2data': 't2data.rename_blocks'}[via] + ('+reorder' if then_reorder else '')

    def h(c):
        p = G.build(c, T, sh, alpha=alpha, phys=True)
        o = dict(m=m_, alpha=alpha, fix_precondition=fixpre)
        keys, vals, bm = C08._rename_map(c, p, o, p.bnames)
        for tag in plain:
            nm = p.bnames[tag] if isinstance(tag, int) else (keys if tag[0] == 'k' else vals)[int(tag[1:])]
            for cell in nm.cells:
                c.add(z3.Or(z3.And(cell.code >= 97, cell.code <= 122), z3.And(cell.code >= 65, cell.code <= 90)))
        if fixpre:      # what the documented fixing makes of the map (oracle side, no forking)
            fkeys, fvals = [C08.fixed_form(k) for k in keys], [C08.fixed_form(v) for v in vals]
        else:
            fkeys, fvals = keys, vals
        if invert:
            bm = {}
            for k, v in zip(keys, vals): bm[v] = k
        snap = G.snapshot(p.g)
        order_b, order_c = list(range(sh['nb'])), list(range(len(sh['cons'])))
        raised = None
        try:
            if via == 't2data':
                dat = ld.t2data.t2data()
                dat.grid = p.g
                dat.rename_blocks(bm, invert=invert, fix_blocknames=fix)
            else:
                p.g.rename_blocks(bm, fix_blocknames=fix)
            if then_reorder:
                # composition: reorder the renamed grid (block list reversed, every connection listed reversed, under the NEW names)
                order_b, order_c = order_b[::-1], order_c[::-1]
                p.g.reorder([p.blocks[i].name for i in order_b],
                            [tuple(b.name for b in p.cons[q].block)[::-1] for q in order_c] or None)
        except Exception as ex:
            raised = '%s: %r' % (type(ex).__name__, ex.args[:1])
        reached[0] += 1
        # expected name of each block: f(old name)
        exp = []
        for (b, name, vol, rock, ctr) in snap.blocks:
            hit = [eqf(k, name) for k in fkeys]
            parts = [z_or([z_not(hk), eqf(b.name, v)]) for hk, v in zip(hit, fvals)]
            parts.append(z_or(hit + [eqf(b.name, name)]))
            exp.append(zb(z_and(parts)))
        checks = [('raised', 'the operation completes on an input that satisfies its precondition (%s)' % raised, raised is None),
                  ('block-order', 'block list holds the same objects in the expected order',
                   [id(b) for b in p.g.blocklist] == [id(p.blocks[i]) for i in order_b]),
                  ('connection-order', 'connection list holds the same objects in the expected order',
                   [id(x) for x in p.g.connectionlist] == [id(p.cons[q]) for q in order_c])]
        checks += list_checks(snap, p.g)
        checks += block_checks(snap, p.g, expect_names=exp)
        checks += connection_checks(snap)
        if raised: checks = checks[:1]        # nothing is claimed about the state an exception leaves behind
        def replay_of(m):
            return dict(op='rename_blocks', pre=G.concrete_pre(m, p),
                        args=dict(map=[[name_value(m, k), name_value(m, v)] for k, v in zip(keys, vals)], fix=fix,
                                  then_reorder=then_reorder, via=via, invert=invert))
        _finish_path(c, opname, sh, checks, failures, distinct, samples, replay_of, perkey,
                     klass_default='names-to-fix' if fixpre else 'any')
        return 'ok'

    res = sym.explore(h, G.FastCtx(timeout_ms=30000), max_paths=6000, profile_repo=profile)
    tr = report.summarize('%s/%s/m=%d/%s%s%s' % (opname, G.shape_id(sh), m_, alpha, '/invert' if invert else '',
                                                 '/plain:' + ','.join(str(x) for x in plain) if plain else ''), res, failures, samples,
                          extra=dict(distinct_obligations=len(distinct), reached=reached[0]))
    if not reached[0]: tr['error'] = 'vacuous: no path reached the obligations'
    return tr


ATMOS_VOLUME = 1.e25     # default of t2grid.minc

def task_minc(sh, fractions, spacing, nfp, blocks, profile=False):
    ld = _load(); T = ld.t2grids
    failures, samples, distinct, perkey = [], [], set(), {}
    reached = [0]
    q = [Fraction(f) for f in fractions]
    tot = sum(q); q = [x / tot for x in q]
    L = len(fractions)
    nb, ncon = sh['nb'], len(sh['cons'])
    sel = list(range(nb)) if blocks is None else list(blocks)

    def h(c):
        p = G.build(c, T, sh, alpha='lower', phys=True)
        snap = G.snapshot(p.g)
        try:
            p.g.minc(list(fractions), spacing=spacing, num_fracture_planes=nfp,
                     blocks=None if blocks is None else [p.bnames[i] for i in blocks])
        except Exception as ex:
            return 'raised:%s' % (str(ex.args[0])[:30] if ex.args and isinstance(ex.args[0], str) else type(ex).__name__)
        reached[0] += 1
        g = p.g
        # which selected blocks are MINC-processed on this path (decided by the solver from the path condition)
        processed = []
        for i in sel:
            f = z3.And(p.vol[i].e > 0, p.vol[i].e < z3.RealVal(Fraction(ATMOS_VOLUME)))
            # no fork when the path condition already decides it (it does on the unchanged tree);
            # otherwise the path is split so that each half has a definite expectation
            if c.branch(f): processed.append(i)
        newb = g.blocklist[nb:]; newc = g.connectionlist[ncon:]
        checks = [('chain', 'exactly (levels-1) new blocks and connections per processed block',
                   len(newb) == len(processed) * (L - 1) and len(newc) == len(processed) * (L - 1)),
                  ('old-lists', 'the original blocks and connections keep their list positions',
                   [id(b) for b in g.blocklist[:nb]] == [id(b) for b in p.blocks] and
                   [id(x) for x in g.connectionlist[:ncon]] == [id(x) for x in p.cons])]
        checks += [x for x in connection_checks(snap)]
        for idx, (b, name, vol, rock, ctr) in enumerate(snap.blocks):
            if idx not in processed:
                checks.append(('untouched-volume', 'block %d (not processed) keeps its volume' % idx, req(b.volume, vol)))
            checks.append(('block-name', 'block %d keeps its name and centre' % idx,
                           z_and([eqf(b.name, name), b.centre is ctr])))
        if len(newb) == len(processed) * (L - 1) and len(newc) == len(newb):
            pos = 0
            for i in processed:
                B, V = p.blocks[i], p.vol[i]
                total = B.volume
                checks.append(('volume-fraction', 'block %d: fracture continuum holds fraction %s of the original volume' % (i, q[0]),
                               within(B.volume, V * q[0], V * q[0])))
                last = B
                for m in range(1, L):
                    M, con = newb[pos], newc[pos]; pos += 1
                    total = total + M.volume
                    checks.append(('volume-fraction', 'block %d level %d holds fraction %s of the original volume' % (i, m, q[m]),
                                   within(M.volume, V * q[m], V * q[m])))
                    lev = str(m)
                    checks.append(('chain', 'block %d level %d: connection joins the previous continuum (first) and this one (second), '
                                   'name is level digit + rest of the original name, centre copied' % (i, m),
                                   z_and([len(con.block) == 2 and con.block[0] is last and con.block[1] is M,
                                          eqf(M.name, lev + p.bnames[i][len(lev):]),
                                          M.centre is B.centre])))
                    nrec = 1 if m == L - 1 else 2
                    checks.append(('chain', 'block %d level %d is connected only along the chain (%d connections)' % (i, m, nrec),
                                   len(M.connection_name) == nrec))
                    last = M
                checks.append(('volume-sum', 'block %d: volumes of all continua sum to the original volume (1e-12 relative)' % i,
                               within(total, V, V)))
        def replay_of(m):
            return dict(op='minc', pre=G.concrete_pre(m, p),
                        args=dict(fractions=list(fractions), spacing=spacing, nfp=nfp, blocks=blocks))
        _finish_path(c, 'minc', sh, checks, failures, distinct, samples, replay_of, perkey,
                     klass_default='levels-%d,planes-%d,%s' % (L, nfp, 'all' if blocks is None else 'partial'))
        return 'ok:%d processed' % len(processed)

    res = sym.explore(h, G.FastCtx(timeout_ms=30000), max_paths=3000, profile_repo=profile)
    tr = report.summarize('minc/%s/%s/%s/%s/%s' % (G.shape_id(sh), fractions, spacing, nfp, blocks), res, failures, samples,
                          extra=dict(distinct_obligations=len(distinct), reached=reached[0]))
    if not reached[0]: tr['error'] = 'vacuous: no path reached the obligations'
    return tr


def task_embed(sh, other, host, sub, profile=False):
    ld = _load(); T = ld.t2grids
    failures, samples, distinct, perkey = [], [], set(), {}
    reached = [0]

    def h(c):
        p = G.build(c, T, sh, alpha='lower', phys=True)
        p2 = G.build(c, T, other, tag='s', alpha='lower', phys=True)
        d = [c.real('ed0', 0), c.real('ed1', 0)]; area = c.real('earea', 0, strict_lo=True); dc = c.real('edc', -1, 1)
        con = T.t2connection([p.blocks[host], p2.blocks[sub]], 1, list(d), area, dc)
        snap, snap2 = G.snapshot(p.g), G.snapshot(p2.g)
        total_before = sum(p.vol[1:], p.vol[0])
        subvol = sum(p2.vol[1:], p2.vol[0])
        with contextlib.redirect_stdout(io.StringIO()):
            res = p.g.embed(p2.g, con)
        if res is None: return 'refused'
        reached[0] += 1
        total_after = None
        for b in res.blocklist:
            total_after = b.volume if total_after is None else total_after + b.volume
        # round 4: the result is read by list position and name (not by identity with the operands' objects), so that an
        # embed() / __add__ that builds its result from copies of the operands is judged by the same clauses
        nb1, nb2, k1, k2 = len(p.blocks), len(p2.blocks), len(p.cons), len(p2.cons)
        rb, rc = list(res.blocklist), list(res.connectionlist)
        want_pairs = [tuple(b.name for b in x.block) for x in p.cons + p2.cons + [con]]
        checks = [('total-volume', 'embedding conserves the total volume of the host grid', req(total_after, total_before)),
                  ('block-lists', 'result lists the host grid\'s blocks then the sub-grid\'s',
                   z_and([len(rb) == nb1 + nb2] + [eqf(b.name, n) for b, n in zip(rb, p.bnames + p2.bnames)])),
                  ('connection-lists', 'result lists the host connections, the sub-grid connections, then the embedding connection',
                   z_and([len(rc) == k1 + k2 + 1] + [G.tup_eq(tuple(b.name for b in x.block), t) for x, t in zip(rc, want_pairs)]))]
        if len(rb) == nb1 + nb2:
            for idx in range(nb1):
                ev = p.vol[idx] - subvol if idx == host else p.vol[idx]
                checks.append(('host-volumes', 'host grid block %d has the expected volume' % idx, req(rb[idx].volume, ev)))
            for idx in range(nb2):
                checks.append(('sub-volumes', 'sub-grid block %d keeps its volume' % idx, req(rb[nb1 + idx].volume, p2.vol[idx])))
        checks += connection_checks(snap) + connection_checks(snap2)
        if len(rc) == k1 + k2 + 1:
            for q, ph in enumerate(p.phys + p2.phys):
                checks.append(('result-connection-data', 'connection %d of the result carries the data of the operand\'s connection' % q,
                               z_and([vec_eq(list(rc[q].distance), ph['d']), req(rc[q].area, ph['area']), req(rc[q].dircos, ph['dircos']),
                                      req(rc[q].direction, ph['direction'])])))
            ec = rc[-1]
            checks.append(('embedding-connection', 'the embedding connection joins host block and sub-grid block with the given data',
                           z_and([len(ec.block) == 2, G.tup_eq(tuple(b.name for b in ec.block), (p.bnames[host], p2.bnames[sub])),
                                  vec_eq(list(ec.distance), d), req(ec.area, area), req(ec.dircos, dc)])))
        def replay_of(m):
            return dict(op='embed', pre=G.concrete_pre(m, p),
                        args=dict(other=G.concrete_pre(m, p2), host=host, sub=sub,
                                  con=dict(d=[num_value(m, x) for x in d], area=num_value(m, area), dircos=num_value(m, dc))))
        _finish_path(c, 'embed', sh, checks, failures, distinct, samples, replay_of, perkey)
        return 'embedded'

    res = sym.explore(h, G.FastCtx(timeout_ms=30000), max_paths=3000, profile_repo=profile)
    tr = report.summarize('embed/%s/%s' % (G.shape_id(sh), G.shape_id(other)), res, failures, samples,
                          extra=dict(distinct_obligations=len(distinct), reached=reached[0]))
    if not reached[0]: tr['error'] = 'vacuous: no path reached the obligations'
    return tr


_LDV = None
def _load_fs():
    """second copy of the modules with an in-memory file system (the write/read composition); once, in the parent."""
    global _LDV
    if _LDV is None:
        from vx import vfs as vfsmod
        fs = vfsmod.VFS()
        _LDV = (loader.load(['t2data'], vfs=fs), fs)
    return _LDV


def task_writeread(sh, rpat, rename=False, profile=False):
    """round 4: "... followed optionally by a write/read of the data file".  Grid with symbolic block names (letters) and
    symbolic ROCK TYPE names over letters, digits and blank (numeric names like '    3' and names with blanks included),
    reordered (both lists reversed, every connection listed reversed), optionally renamed (symbolic one-to-one map over
    letters), written with the real t2data.write and read back with the real t2data.read: the file read back lists the
    same rock types, every block (by list position) carries its name and ITS rock type, the connections join the same
    pairs.  Numbers are concrete here (their round trip through the fixed-width fields is C01's subject)."""
    ld, fs = _load_fs(); T = ld.t2grids
    from harness import C08
    failures, samples, distinct, perkey = [], [], set(), {}
    reached = [0]
    nb, k = sh['nb'], len(sh['cons'])
    opname = ('reorder+rename_blocks' if rename else 'reorder') + '+write/read'

    def h(c):
        fs.files.clear()
        p = G.build(c, T, sh, alpha='alnumsp', phys=False, volumes=False)
        for nm in p.bnames:
            for cell in nm.cells: c.add(z3.And(cell.code >= 97, cell.code <= 122))
        # rpat: per rock type the character class of each cell (L letter, D digit, B blank): a shape choice that keeps
        # strip() / isdigit() / int() of a symbolic name from forking 3^5 ways in code that looks at its characters
        for nm, pat in zip(p.rnames, rpat):
            for cell, k_ in zip(nm.cells, pat):
                if k_ == 'B': c.add(cell.code == 32)
                elif k_ == 'D': c.add(z3.And(cell.code >= 48, cell.code <= 57))
                else: c.add(z3.Or(z3.And(cell.code >= 97, cell.code <= 122), z3.And(cell.code >= 65, cell.code <= 90)))
        for i, b in enumerate(p.blocks): b.centre = G._np.array([1.0 * i, 2.0, 3.0])
        dat = ld.t2data.t2data(); dat.grid = p.g
        border, corder = list(range(nb))[::-1], list(range(k))[::-1]
        keys = vals = []
        raised = None
        g2 = None
        try:
            p.g.reorder([p.bnames[i] for i in border], [(p.bnames[sh['cons'][q][1]], p.bnames[sh['cons'][q][0]]) for q in corder] or None)
            if rename:
                keys, vals, bm = C08._rename_map(c, p, dict(m=1, alpha='lower', fix_precondition=False), p.bnames)
                p.g.rename_blocks(bm, fix_blocknames=False)
            want_names = [p.blocks[i].name for i in border]
            want_pairs = [tuple(b.name for b in p.cons[q].block) for q in corder]
            dat.write('c09.dat')
            g2 = ld.t2data.t2data('c09.dat').grid
        except Exception as ex:
            raised = '%s: %s' % (type(ex).__name__, str(ex.args[:1])[:80])
        reached[0] += 1
        checks = [('raised', 'reorder, write and read complete (%s)' % raised, raised is None)]
        if g2 is not None:
            checks.append(('rocktypes-listed', 'the file read back lists the same rock types in the same order',
                           z_and([len(g2.rocktypelist) == sh['nr']] + [eqf(r.name, n) for r, n in zip(g2.rocktypelist, p.rnames)])))
            checks.append(('block-order', 'the file read back lists the blocks in the order of the block list, under their names',
                           z_and([len(g2.blocklist) == nb] + [eqf(b.name, n) for b, n in zip(g2.blocklist, want_names)])))
            if len(g2.rocktypelist) == sh['nr']:
                for pos, (b, i) in enumerate(zip(g2.blocklist, border)):
                    checks.append(('block-rocktype', 'block %d comes back with its own rock type' % i,
                                   b.rocktype is g2.rocktypelist[sh['brock'][i]]))
            checks.append(('connection-order', 'the file read back lists the connections in list order, joining the same pairs',
                           z_and([len(g2.connectionlist) == k] +
                                 [G.tup_eq(tuple(b.name for b in x.block), t) for x, t in zip(g2.connectionlist, want_pairs)])))
        def replay_of(m):
            return dict(op='writeread', pre=G.concrete_pre(m, p),
                        args=dict(rename=[[name_value(m, a), name_value(m, b)] for a, b in zip(keys, vals)]))
        _finish_path(c, opname, sh, checks, failures, distinct, samples, replay_of, perkey, klass_default='rock-names-letters-digits-blank')
        return 'ok' if raised is None else 'raised'

    res = sym.explore(h, G.FastCtx(timeout_ms=30000), max_paths=400, profile_repo=profile)
    tr = report.summarize('%s/%s/%s' % (opname, G.shape_id(sh), ','.join(rpat)), res, failures, samples,
                          extra=dict(distinct_obligations=len(distinct), reached=reached[0]))
    if not reached[0]: tr['error'] = 'vacuous: no path reached the obligations'
    return tr


def list_checks(snap, g, klass='any'):
    """the ordered lists (what a data file is written from) still hold every block and every connection once:
    object identity (structure, concrete on a path) and the totals a missing or doubled entry changes (symbolic)."""
    out = []
    ids_b, ids_c = [id(b) for b in g.blocklist], [id(x) for x in g.connectionlist]
    out.append(('blocks-not-all-listed', 'the block list holds every block of the grid exactly once (%d listed, %d before)'
                % (len(ids_b), len(snap.blocks)), sorted(ids_b) == sorted(id(t[0]) for t in snap.blocks), klass))
    out.append(('connections-not-all-listed', 'the connection list holds every connection of the grid exactly once (%d listed, %d before)'
                % (len(ids_c), len(snap.cons)), sorted(ids_c) == sorted(id(t[0]) for t in snap.cons), klass))
    tot0 = tot1 = None
    for t in snap.blocks: tot0 = t[2] if tot0 is None else tot0 + t[2]
    for b in g.blocklist: tot1 = b.volume if tot1 is None else tot1 + b.volume
    out.append(('listed-volume', 'the volumes of the listed blocks add up to the same total', req(tot1, tot0), klass))
    ar0 = ar1 = None
    for t in snap.cons: ar0 = t[3] if ar0 is None else ar0 + t[3]
    for x in g.connectionlist: ar1 = x.area if ar1 is None else ar1 + x.area
    out.append(('listed-area', 'the interface areas of the listed connections add up to the same total', req(ar1, ar0), klass))
    return out


def task_fromgeo_reorder(nx, ny, nz, atmos_type, how='explicit', scramble='rev-all', surf=(), profile=False):
    """grid produced by the real rectangular()+fromgeo() with symbolic spacings.
    how 'explicit': reorder to the reversed block list with every connection listed reversed.
    how 'geo': the grid is first scrambled with explicit lists (`scramble`: 'none', 'rev-all' = both lists reversed and
               every connection listed reversed, 'rev-alt' = both lists reversed, every other connection listed reversed),
               then put back into geometry order with reorder(geo = geo): the lists must be the geometry's lists
               (geo.block_name_list / geo.block_connection_name_list, every block and connection still listed)."""
    ld = _load(); T = ld.t2grids
    failures, samples, distinct, perkey = [], [], set(), {}
    reached = [0]
    shname = 'rect%dx%dx%d_atm%d' % (nx, ny, nz, atmos_type) + ('' if how == 'explicit' else '_geo_' + scramble)
    if surf: shname += '_surf' + ''.join(str(i) for i in surf)
    op = 'reorder' if how == 'explicit' else 'reorder(geo)'
    klass = 'any' if how == 'explicit' else 'atmosphere-type-%d' % atmos_type

    def h(c):
        dx = [c.real('dx%d' % i, 0, strict_lo=True) for i in range(nx)]
        dy = [c.real('dy%d' % i, 0, strict_lo=True) for i in range(ny)]
        dz = [c.real('dz%d' % i, 0, strict_lo=True) for i in range(nz)]
        geo = ld.mulgrids.mulgrid().rectangular(dx, dy, dz, atmos_type=atmos_type)
        sv = []
        if surf:
            # round 4: columns with a ground surface of their own (symbolic elevation, anywhere above the bottom of the
            # grid: inside a layer, exactly on a layer boundary, above the top) - the geometry's name lists are set up again
            # the way mulgrid.read() / set_column_surface users do
            for ci in surf:
                s_ = c.real('surf%d' % ci); c.add(s_.e > sym.lift_real(geo.layerlist[-1].bottom))
                geo.columnlist[ci].surface = s_; sv.append(s_)
            geo.setup_block_name_index(); geo.setup_block_connection_name_index()
        try:
            g = T.t2grid().fromgeo(geo)
        except Exception as ex:
            if not surf: raise
            # a legal geometry that fromgeo() cannot turn into a grid: reported as a failure of its own, not as a harness error
            reached[0] += 1
            why = '%s: %r' % (type(ex).__name__, ex.args[:1])
            _finish_path(c, 'fromgeo', shname, [('raised', 'fromgeo() completes on a geometry with its own column surfaces (%s)' % why, False, klass)],
                         failures, distinct, samples,
                         lambda m: dict(op='fromgeo_reorder', args=dict(dx=[num_value(m, x) for x in dx], dy=[num_value(m, x) for x in dy],
                                                                        dz=[num_value(m, x) for x in dz], atmos_type=atmos_type, how=how, scramble=scramble,
                                                                        surf=[[ci, num_value(m, x)] for ci, x in zip(surf, sv)])), perkey)
            return 'fromgeo-raised'
        snap = G.snapshot(g)
        bn = [b.name for b in g.blocklist][::-1]
        raised = None
        if how == 'explicit':
            cn = [tuple(b.name for b in con.block)[::-1] for con in g.connectionlist]
            g.reorder(bn, cn)
            want_b, want_c = bn, cn
        else:
            cn = [tuple(b.name for b in con.block) for con in g.connectionlist][::-1]
            if scramble == 'rev-all': cn = [t[::-1] for t in cn]
            elif scramble == 'rev-alt': cn = [t[::-1] if q % 2 == 0 else t for q, t in enumerate(cn)]
            if scramble != 'none': g.reorder(bn, cn)
            try:
                g.reorder(geo=geo)
            except Exception as ex:
                raised = '%s: %r' % (type(ex).__name__, ex.args[:1])
            want_b, want_c = list(geo.block_name_list), list(geo.block_connection_name_list)
        reached[0] += 1
        checks = [('raised', 'the operation completes on an input that satisfies its precondition (%s)' % raised, raised is None, klass),
                  ('block-order', 'the block list is in the requested order',
                   z_and([len(g.blocklist) == len(want_b)] + [eqf(b.name, n) for b, n in zip(g.blocklist, want_b)]), klass),
                  ('connection-order', 'the connection list is in the requested order and orientation',
                   z_and([len(g.connectionlist) == len(want_c)] +
                         [G.tup_eq(tuple(b.name for b in x.block), tuple(n)) for x, n in zip(g.connectionlist, want_c)]), klass)]
        checks += list_checks(snap, g, klass)
        checks += [t + (klass,) for t in block_checks(snap, g)]
        checks += [t[:3] + ((klass + ',' + t[3]) if how != 'explicit' else t[3],) for t in connection_checks(snap)]
        if raised: checks = checks[:1]
        def replay_of(m):
            return dict(op='fromgeo_reorder', args=dict(dx=[num_value(m, x) for x in dx], dy=[num_value(m, x) for x in dy],
                                                         dz=[num_value(m, x) for x in dz], atmos_type=atmos_type,
                                                         how=how, scramble=scramble,
                                                         surf=[[ci, num_value(m, x)] for ci, x in zip(surf, sv)]))
        _finish_path(c, op, shname, checks, failures, distinct, samples, replay_of, perkey)
        return 'ok'

    res = sym.explore(h, G.FastCtx(timeout_ms=30000), max_paths=200, profile_repo=profile)
    tr = report.summarize('fromgeo_reorder/%s' % shname, res, failures, samples,
                          extra=dict(distinct_obligations=len(distinct), reached=reached[0]))
    if not reached[0]: tr['error'] = 'vacuous: no path reached the obligations'
    return tr


# ---------------------------------------------------------------------------

def catalogue(tier):
    tasks = []
    add = lambda f, **kw: tasks.append((f, kw))
    # reorder
    for nb in (1, 2, 3):
        for sub in itertools.chain.from_iterable(itertools.combinations(G.pairs(nb), r) for r in range(len(G.pairs(nb)) + 1)):
            sh = G.shape(nb, G.orient(sub, 'alt'), nr=2)
            add(task_reorder, sh=sh, mode='blocks')
            if sub: add(task_reorder, sh=sh, mode='connections')
    prs = G.pairs(4)
    if tier == 'quick':
        four = [[(0, 1), (1, 2), (2, 3), (0, 3)]]
        small = [[(0, 1), (1, 2), (2, 3)], [(0, 1), (0, 2), (0, 3)], [(0, 2), (1, 3)]]
    else:
        four = [list(s) for s in itertools.combinations(prs, 4)]
        small = [list(s) for r in (0, 1, 2, 3) for s in itertools.combinations(prs, r)]
    for sub in four + small:
        sh = G.shape(4, G.orient(sub, 'alt'), nr=2)
        if sub: add(task_reorder, sh=sh, mode='connections')
        if tier != 'quick' or len(sub) in (3, 4): add(task_reorder, sh=sh, mode='blocks')
    # rename
    ren = [(2, [(0, 1)], 1), (2, [(1, 0)], 2), (3, [(0, 1), (2, 1)], 2)]
    if tier != 'quick':
        ren += [(3, [(0, 1), (1, 2), (2, 0)], 3), (4, [(0, 1), (2, 1), (2, 3), (3, 0)], 2)]
    for nb, cons, m_ in ren:
        add(task_rename, sh=G.shape(nb, cons, nr=2), m_=m_, fix=(m_ == 1))
    # entry forms of reorder with one of the two lists omitted (the other list must stay exactly as it is)
    for nb, sub in [(2, [(0, 1)]), (3, [(0, 1), (1, 2), (0, 2)])] + ([] if tier == 'quick' else [(4, [(0, 1), (1, 2), (2, 3), (0, 3)]), (4, [(0, 1), (0, 2), (0, 3)])]):
        sh = G.shape(nb, G.orient(sub, 'alt'), nr=2)
        add(task_reorder, sh=sh, mode='only-blocks')
        add(task_reorder, sh=sh, mode='only-connections')
    # rename maps typed the TOUGH2 way ('ab1 5' for 'ab105'), fix_blocknames=True: names over letters, digits, blank;
    # through t2grid.rename_blocks and through t2data.rename_blocks (which fixes the map itself, optionally inverted)
    A = 'alnumsp'
    add(task_rename, sh=G.shape(2, [(0, 1)], nr=2), m_=1, fix=True, alpha=A)
    add(task_rename, sh=G.shape(2, [(1, 0)], nr=2), m_=1, fix=True, alpha=A, via='t2data')
    add(task_rename, sh=G.shape(2, [(1, 0)], nr=2), m_=1, fix=True, alpha=A, via='t2data', invert=True)
    add(task_rename, sh=G.shape(2, [(0, 1)], nr=2), m_=2, fix=True, alpha=A, plain=['k0', 'w1'])        # {b: 'QQ1 5', 'QQ1 5': b}
    if tier != 'quick':
        add(task_rename, sh=G.shape(3, [(0, 1), (2, 1)], nr=2), m_=1, fix=True, alpha=A)
        add(task_rename, sh=G.shape(3, [(0, 1), (2, 1)], nr=2), m_=1, fix=True, alpha=A, then_reorder=True)
        add(task_rename, sh=G.shape(2, [(0, 1)], nr=2), m_=2, fix=True, alpha=A, plain=['k1', 'w1', 1])
        add(task_rename, sh=G.shape(2, [(0, 1)], nr=2), m_=2, fix=True, alpha=A, plain=['k0', 'w1'], via='t2data')
        add(task_rename, sh=G.shape(2, [(0, 1)], nr=2), m_=2, fix=True, alpha=A, plain=['w0', 'k1'], via='t2data', invert=True)
        add(task_rename, sh=G.shape(3, [(0, 1), (2, 1)], nr=2), m_=2, fix=True, alpha=A, plain=['k0', 'w1', 2])
        add(task_rename, sh=G.shape(2, [(0, 1)], nr=2), m_=2, fix=True, alpha=A)      # every name of the map may need fixing (1792 paths, ~5 min on one core)
    # composition rename -> reorder (with reversals) on the renamed grid
    add(task_rename, sh=G.shape(3, [(0, 1), (2, 1)], nr=2), m_=2, fix=False, then_reorder=True)
    if tier != 'quick':
        add(task_rename, sh=G.shape(4, [(0, 1), (2, 1), (2, 3), (3, 0)], nr=2), m_=2, fix=True, then_reorder=True)
        for sub in ([(0, 1), (1, 2), (2, 3), (0, 3)], [(0, 1), (0, 2), (0, 3), (1, 2)], [(0, 1), (1, 2), (2, 3), (1, 3)]):
            add(task_reorder, sh=G.shape(4, G.orient(sub, 'alt'), nr=2), mode='both')
    # MINC
    # (lists summing to 1, to less than 1 and to more than 1: the requested fractions are f_k / sum(f))
    mincs = [([0.2, 0.8], 50., 1, None), ([0.1, 0.3, 0.6], 30., 2, None), ([0.1, 0.3, 0.6], 30., 2, [1]),
             ([0.1, 0.2, 0.3], 30., 1, None), ([1., 3.], 50., 1, None)]
    if tier != 'quick':
        mincs += [([0.05, 0.15, 0.3, 0.5], [20., 40., 60.], 3, None), ([1., 2., 3., 4., 10.], 100., 1, [0]),
                  ([0.05, 0.1, 0.15, 0.2, 0.2, 0.3], 50., 3, None), ([0.3, 0.7], [10., 25.], 2, [0, 1])]
    for fr, sp, nfp, blks in mincs:
        for nb, cons in ((1, []), (2, [(0, 1)])) + (() if tier == 'quick' else ((3, [(0, 1), (2, 1)]),)):
            if blks is not None and max(blks) >= nb: continue
            if nb == 3 and len(fr) > 4: continue
            add(task_minc, sh=G.shape(nb, cons, nr=2), fractions=fr, spacing=sp, nfp=nfp, blocks=blks)
    # embed
    emb = [(G.shape(1, [], nr=1), G.shape(1, [], nr=1), 0, 0), (G.shape(2, [(0, 1)], nr=2), G.shape(2, [(1, 0)], nr=1), 1, 0)]
    if tier != 'quick':
        emb += [(G.shape(3, [(0, 1), (2, 1)], nr=2), G.shape(2, [(0, 1)], nr=1), 0, 1),
                (G.shape(4, [(0, 1), (2, 1), (3, 0)], nr=2), G.shape(1, [], nr=1), 2, 0)]
    for sh, other, host, sub in emb:
        add(task_embed, sh=sh, other=other, host=host, sub=sub)
    # grids built from geometries
    for at in (0, 1, 2):
        add(task_fromgeo_reorder, nx=2, ny=1, nz=2, atmos_type=at)
    if tier != 'quick':
        add(task_fromgeo_reorder, nx=2, ny=2, nz=2, atmos_type=0)
        add(task_fromgeo_reorder, nx=3, ny=1, nz=2, atmos_type=2)
    # the geo form of reorder: scrambled grid put back into geometry order with reorder(geo = geo)
    for dims in [(2, 1, 2), (2, 2, 2)] + ([] if tier == 'quick' else [(3, 1, 2), (3, 2, 3), (1, 1, 1), (1, 2, 3)]):
        for at in (0, 1, 2):
            for scr in ('none', 'rev-all', 'rev-alt'):
                add(task_fromgeo_reorder, nx=dims[0], ny=dims[1], nz=dims[2], atmos_type=at, how='geo', scramble=scr)
    # round 4: geometries whose columns have a ground surface of their own (symbolic elevation: inside any layer, exactly
    # on a layer boundary, above the top), i.e. columns of different depth and atmosphere connections below the top layer
    for at in (0, 1, 2):
        add(task_fromgeo_reorder, nx=2, ny=1, nz=3, atmos_type=at, how='geo', scramble='rev-alt', surf=(1,))
        add(task_fromgeo_reorder, nx=2, ny=1, nz=2, atmos_type=at, surf=(0,))
        if tier != 'quick':
            add(task_fromgeo_reorder, nx=2, ny=2, nz=3, atmos_type=at, how='geo', scramble='rev-all', surf=(0, 3))
            add(task_fromgeo_reorder, nx=3, ny=1, nz=4, atmos_type=at, how='geo', scramble='none', surf=(1,))
            add(task_fromgeo_reorder, nx=2, ny=1, nz=3, atmos_type=at, surf=(0, 1))
    # round 4: composition with a write/read of the data file, rock type names symbolic over letters, digits and blank
    # (numeric names have ONE digit: int() of several symbolic digits used as a list index sends z3's optimiser away for minutes)
    wr = [(G.shape(2, [(0, 1)], nr=2, brock=[0, 1]), ['BBBBD', 'LLLLL'], False),
          (G.shape(2, [(0, 1)], nr=2, brock=[1, 0]), ['LLLLB', 'BBBBD'], False),
          (G.shape(3, [(0, 1), (2, 1)], nr=3, brock=[2, 0, 1]), ['LLLLL', 'BBBBD', 'BBBBD'], False),
          (G.shape(2, [(1, 0)], nr=2, brock=[1, 1]), ['LLBDD', 'BBBBD'], True)]
    if tier != 'quick':
        wr += [(G.shape(4, [(0, 1), (2, 1), (2, 3)], nr=3, brock=[1, 2, 0, 1]), ['BBBBD', 'LLLLL', 'BBDBB'], False),
               (G.shape(3, [(0, 1), (2, 1)], nr=3, brock=[1, 0, 2]), ['LLLLL', 'BBBBD', 'BBBBD'], True),
               (G.shape(3, [(0, 1)], nr=4, brock=[3, 1, 2]), ['BBBBD', 'BBBBD', 'LBBBD', 'DBBBB'], False)]
    for sh, rpat, ren in wr:
        add(task_writeread, sh=sh, rpat=rpat, rename=ren)
    seen = set()
    for f, kw in tasks:        # the slow sys.setprofile pass (which repo functions ran) once per kind of task
        if f not in seen and (f is task_fromgeo_reorder or kw['sh']['nb'] >= 2):
            seen.add(f); kw['profile'] = True
    return schedule(tasks)


def schedule(tasks):
    """longest first (estimated number of paths); stable."""
    from math import factorial
    def weight(t):
        f, kw = t
        if f is task_reorder:
            nb, k = kw['sh']['nb'], len(kw['sh']['cons'])
            return {'connections': factorial(k) * 2 ** k, 'both': factorial(nb) * 2 ** k, 'blocks': factorial(nb),
                    'only-connections': factorial(k) * 2 ** k, 'only-blocks': factorial(nb)}[kw['mode']]
        if f is task_minc: return 4 ** kw['sh']['nb'] * len(kw['fractions'])
        if f is task_rename:
            if kw.get('alpha', 'lower') != 'lower': return (60 * 4 ** kw['m_']) * (1 if kw.get('plain') or kw['m_'] < 2 else 100)
            return (kw['sh']['nb'] + 1) ** kw['m_']
        return 5
    return sorted(tasks, key=lambda t: -weight(t))


def run(tier, seed, rep):
    _load(); _load_fs()
    tasks = catalogue(tier)
    flt = os.environ.get('VX_TASK_FILTER')
    if flt:
        # development aid (mutation testing of one operation): a filtered run can never exit 0
        tasks = [t for t in tasks if any(f in (t[1].get('op') or t[0].__name__) for f in flt.split(','))]
        rep.harness_error('VX_TASK_FILTER=%s active: partial run of %d tasks, not a verdict' % (flt, len(tasks)))
    if seed:
        import random
        random.Random(seed).shuffle(tasks)
        tasks = schedule(tasks)
    rep.add_results(report.run_tasks(tasks))
    rep.extra['paths_reaching_obligations'] = sum(r.get('extra', {}).get('reached', 0) for r in rep.results)
    rep.bounds += [
        'reorder: grids of <=4 blocks; <=3 blocks: every connection subset; 4 blocks: %s; for each: every connection '
        'permutation x every subset of connections listed reversed (block list reversed), and every block permutation '
        '(all connections reversed)' % ('cycle, path, star, two disjoint pairs' if tier == 'quick' else 'every connection subset of <=4 pairs'),
        'all physical data symbolic: volumes and centres any real, distances >= 0, area > 0, cosine in [-1,1], direction 1..3, nad 0..99',
        'rename_blocks: one-to-one symbolic maps of 1..%d entries on 2..%d blocks, names over [a-z]' % (2 if tier == 'quick' else 3, 3 if tier == 'quick' else 4),
        'rename maps typed the TOUGH2 way (fix_blocknames=True, names over letters, digits and blank, so that fix_blockname really rewrites keys and '
        'targets): through t2grid.rename_blocks and through t2data.rename_blocks (also invert=True); 1 entry on 2%s blocks, 2 entries on 2%s blocks with '
        '%s' % ((' and 3', ' and 3', 'two of the four names of the map restricted to letters (several choices) and, on 2 blocks, all four names unrestricted')
                if tier != 'quick' else ('', '', 'key of entry 0 and target of entry 1 restricted to letters (the pattern {b: "ab1 5", "ab1 5": b})')),
        'reorder with only block_names or only connection_names given (the other list must stay as it is): 2 blocks and the triangle%s, every permutation '
        '(x every reversal subset)' % ('' if tier == 'quick' else ', 4-cycle and star on 4 blocks'),
        'reorder(geo = geo): grids from rectangular()+fromgeo() with symbolic spacings, %s, atmosphere types 0,1,2, unscrambled / both lists reversed and every '
        'connection listed reversed / every other connection listed reversed, then put back into geometry order' % (
            '2x1x2 and 2x2x2' if tier == 'quick' else '2x1x2, 2x2x2, 3x1x2, 3x2x3, 1x1x1, 1x2x3'),
        'every reorder / rename task also proves that each block and each connection is still listed exactly once and that the listed volumes / areas keep their totals',
        'MINC: concrete fraction lists of length 2..%d (floats lifted to exact rationals), 1..3 fracture-plane sets, concrete spacings, '
        'whole grid / partial selection, 1..%d blocks with symbolic volumes (any real: blocks with volume <= 0 or >= 1e25 must be left alone)' % (3 if tier == 'quick' else 6, 2 if tier == 'quick' else 3),
        'embed: host grids of 1..%d blocks, sub-grids of 1..2 blocks, symbolic volumes and names (aliasing decided by the solver)' % (2 if tier == 'quick' else 4),
        'grids built by the real rectangular()+fromgeo() with symbolic spacings (2x1x2%s, atmosphere types 0,1,2) reordered with every connection reversed' % ('' if tier == 'quick' else ', 2x2x2, 3x1x2'),
    ]
    rep.bounds += [
        'round 4: geometries with columns that have a ground surface of their own (symbolic elevation anywhere above the bottom of the grid: inside any '
        'layer, exactly on a layer boundary, above the top): rectangular 2x1x3 with one such column, scrambled, then reorder(geo = geo); 2x1x2 with one such '
        'column reordered with every connection reversed%s; atmosphere types 0,1,2' % ('' if tier == 'quick' else '; 2x2x3 with two, 3x1x4 with one, 2x1x3 with two such columns'),
        'round 4: composition with a write/read of the data file (real t2data.write / t2data.read on an in-memory file): %s, symbolic block names over letters, '
        'symbolic rock type names over per-cell classes letter / digit / blank (numeric names with one digit such as "    3", blank-padded and mixed names), '
        'reorder with both lists and every connection reversed (and a symbolic 1-entry rename), then write + read: same rock types listed, every block comes '
        'back under its name with ITS rock type, connections join the same pairs in list order; numbers concrete'
        % ('2 blocks / 2 rock types, 3 blocks / 3 rock types' if tier == 'quick' else '2..4 blocks, 2..4 rock types'),
    ]
    rep.outside += [
        'MINC connection distances and areas (scipy.optimize.bisect on the proximity function: numerical root finding on floats)',
        'write/read of the data file after the operation for the NUMBERS (rounding into the fixed-width fields is the C01 / C02 round trip); block names '
        'that fix_blockname / unfix_blockname rewrite and numeric rock names of several digits are not in the write/read tasks; blocks without a centre '
        'are not written there (the engine cannot format an object whose __str__ is symbolic)',
        'compositions of several operations beyond rename->reorder (each single step is proved from an arbitrary pre-state instead, '
        'so any composition that stays within the size bound inherits the result)',
        'irregular geometries as inputs (the pre-state is an arbitrary symbolic grid of <=4 blocks, which subsumes their values but not their sizes)',
        'the by-name lookups after the operation (that is C08); here the physics is read from the ordered lists a data file is written from',
        'IEEE rounding: volumes are exact reals, the MINC fractions are the exact values of the floats the real code computes',
    ]
    rep.assumptions += [
        'pre-state is a consistent grid with pairwise distinct names (as in C08)',
        'reorder: block_names is a permutation of the block names, connection_names lists every connection once in either orientation',
        'reversing a connection must swap the two distances and nad1/nad2 and negate the direction cosine '
        '(fromgeo gives vertical connections [upper, lower] the cosine -1, horizontal ones dot(centre[1]-centre[0], tilt))',
        'rename_blocks: map one-to-one, no target equals the name of a block that is not renamed',
        'fix_blocknames=True: a name with a blank in the 4th column between two digits stands for the name with a zero there (fix_blockname), in keys and in '
        'targets; the precondition on the map is stated on those fixed forms and the grid\'s own names are in fixed form (as in C08; grids from geometries and '
        'from data files are); expected name of a block = fixed(target) of the entry whose fixed(key) is its old name',
        'reorder(geo = geo) must produce the lists geo.block_name_list / geo.block_connection_name_list (atmosphere blocks included)',
        'MINC tolerance 1e-12 relative (statement); requested fraction = f_k / sum(f) over the exact values of the given floats',
        'embed: connection = [block of the host grid, block of the sub-grid]',
    ]
    rep.process_failures()
    return rep.finish(rule='one obligation = one clause of the physical signature (per block / per connection) after one real operation on one path; '
                           'pc AND NOT(clause) must be unsat; distinct = distinct non-constant clause formulas by z3 AST hash')
