"""Reload PyTOUGH's modules from /repo's *current* source into private module
objects, with the minimal fixed rewrite described in DESIGN.md 2.1.

Nothing is cached between processes: every check re-reads the source, so a
mutated line is what gets executed."""
import ast
import builtins
import hashlib
import os
import sys
import types

from . import sym, strs, npshim
from .sym import SReal, SInt, SBool
from .strs import SStr

REPO = os.environ.get('PYTOUGH_REPO', '/repo')
REPO_MODULES = ['fixed_format_file', 'geometry', 'mulgrids', 't2incons', 't2grids',
                't2thermo', 'IAPWS97', 't2data', 't2listing']

# ---------------------------------------------------------------------------
# builtin shadows

class _FloatMeta(type):
    def __instancecheck__(cls, x): return isinstance(x, (builtins.float, SReal))
    def __call__(cls, *a): return strs.sfloat(*a)
class float_shim(metaclass=_FloatMeta):
    fromhex = builtins.float.fromhex

class _IntMeta(type):
    def __instancecheck__(cls, x): return isinstance(x, (builtins.int, SInt))
    def __call__(cls, *a): return strs.sint(*a)
class int_shim(metaclass=_IntMeta):
    pass

class _StrMeta(type):
    def __instancecheck__(cls, x):
        from .bstr import BStr
        return isinstance(x, (builtins.str, SStr, BStr))
    def __call__(cls, *a): return strs.sstr(*a)
class str_shim(metaclass=_StrMeta):
    @staticmethod
    def rjust(s, *a): return s.rjust(*a)
    @staticmethod
    def ljust(s, *a): return s.ljust(*a)
    @staticmethod
    def upper(s): return s.upper()
    @staticmethod
    def lower(s): return s.lower()
    @staticmethod
    def strip(s, *a): return s.strip(*a)
    @staticmethod
    def join(sep, it): return strs.sjoin(sep, it)


def _round(x, n=None):
    if isinstance(x, SReal):
        # exact decimal rounding (half up; Python rounds ties to even - ties have measure zero)
        import z3
        from fractions import Fraction
        if n is None:
            return SInt(z3.ToInt(x.e + z3.RealVal(Fraction(1, 2))))
        n = builtins.int(n)
        sc = z3.RealVal(Fraction(10) ** n)
        return SReal(z3.ToReal(z3.ToInt(x.e * sc + z3.RealVal(Fraction(1, 2)))) / sc)
    if isinstance(x, SInt):
        if n is None or builtins.int(n) >= 0: return x
        raise sym.Unsupported('round() of symbolic integer to negative digits')
    return builtins.round(x, n) if n is not None else builtins.round(x)


def _isinstance(x, t):
    return builtins.isinstance(x, t)


SHADOWS = dict(float=float_shim, int=int_shim, str=str_shim, len=strs.slen,
               min=sym.smin, max=sym.smax, round=_round,
               __symx_mod__=None, __symx_join__=strs.sjoin,
               __symx_in__=strs.s_in, __symx_not_in__=strs.s_not_in)


def _smod(a, b):
    if isinstance(a, str):
        return strs.smod(a, b)
    return a % b
SHADOWS['__symx_mod__'] = _smod


# ---------------------------------------------------------------------------
# AST rewrite

class Rewriter(ast.NodeTransformer):
    def __init__(self, pkg, modmap):
        self.pkg = pkg
        self.modmap = modmap
        self.counts = dict(mod=0, join=0, contains=0, imports=0)

    def _map(self, name):
        return self.modmap.get(name)

    def visit_Import(self, node):
        for a in node.names:
            m = self._map(a.name)
            if m is not None:
                self.counts['imports'] += 1
                if a.asname is None: a.asname = a.name.split('.')[0]
                a.name = m
        return node

    def visit_ImportFrom(self, node):
        if node.module == '__future__': return node
        m = self._map(node.module)
        if m is not None:
            self.counts['imports'] += 1
            node.module = m
        return node

    def visit_BinOp(self, node):
        self.generic_visit(node)
        if isinstance(node.op, ast.Mod):
            self.counts['mod'] += 1
            return ast.copy_location(
                ast.Call(func=ast.Name(id='__symx_mod__', ctx=ast.Load()),
                         args=[node.left, node.right], keywords=[]), node)
        return node

    def visit_Call(self, node):
        self.generic_visit(node)
        f = node.func
        if isinstance(f, ast.Attribute) and f.attr == 'join' and \
           isinstance(f.value, ast.Constant) and isinstance(f.value.value, str) and \
           len(node.args) == 1 and not node.keywords:
            self.counts['join'] += 1
            return ast.copy_location(
                ast.Call(func=ast.Name(id='__symx_join__', ctx=ast.Load()),
                         args=[f.value, node.args[0]], keywords=[]), node)
        return node

    def visit_Compare(self, node):
        self.generic_visit(node)
        if len(node.ops) == 1 and isinstance(node.ops[0], (ast.In, ast.NotIn)):
            self.counts['contains'] += 1
            fn = '__symx_in__' if isinstance(node.ops[0], ast.In) else '__symx_not_in__'
            return ast.copy_location(
                ast.Call(func=ast.Name(id=fn, ctx=ast.Load()),
                         args=[node.left, node.comparators[0]], keywords=[]), node)
        return node


class Loaded(object):
    """Namespace of reloaded modules + bookkeeping for evidence."""
    def __init__(self, pkg):
        self.pkg = pkg
        self.modules = {}
        self.sha = {}
        self.rewrites = {}

    def __getattr__(self, name):
        try: return self.__dict__['modules'][name]
        except KeyError: raise AttributeError(name)


_counter = [0]

def load(names=None, repo=None, shadows=True, extra_globals=None, vfs=None):
    """Load the named repo modules (and what they import) from source.
    Returns a Loaded; ld.<module> is the private module object."""
    repo = repo or REPO
    names = names or REPO_MODULES
    _counter[0] += 1
    pkg = 'symrepo%d' % _counter[0]
    ld = Loaded(pkg)
    pkgmod = types.ModuleType(pkg)
    pkgmod.__path__ = []
    sys.modules[pkg] = pkgmod
    modmap = {n: '%s.%s' % (pkg, n) for n in REPO_MODULES}
    if shadows:
        modmap.update({'numpy': pkg + '._np', 'numpy.linalg': pkg + '._np_linalg',
                       'math': pkg + '._math', 'scipy.spatial': pkg + '._absent_scipy_spatial'})
        sys.modules[pkg + '._np'] = npshim.make_numpy_shim(pkg + '._np')
        sys.modules[pkg + '._np_linalg'] = npshim.make_linalg_shim(pkg + '._np_linalg')
        sys.modules[pkg + '._math'] = npshim.make_math_shim(pkg + '._math')
    if vfs is not None:
        from . import vfs as _vfs
        modmap['os.path'] = pkg + '._ospath'
        sys.modules[pkg + '._ospath'] = _vfs.make_ospath_shim(pkg + '._ospath', vfs)
        extra_globals = dict(extra_globals or {}); extra_globals['open'] = vfs.open
    ld.vfs = vfs

    def load_one(name):
        full = '%s.%s' % (pkg, name)
        if full in sys.modules: return sys.modules[full]
        path = os.path.join(repo, name + '.py')
        src = open(path).read()
        ld.sha[name] = hashlib.sha256(src.encode()).hexdigest()[:16]
        import warnings
        with warnings.catch_warnings():
            warnings.simplefilter('ignore')
            tree = ast.parse(src, filename=path)
        # load dependencies first (so that `from X import *` finds them)
        def toplevel(stmts):
            for node in stmts:
                if isinstance(node, (ast.Import, ast.ImportFrom)): yield node
                elif isinstance(node, ast.Try):
                    for b in (node.body, node.orelse, node.finalbody): yield from toplevel(b)
                    for hnd in node.handlers: yield from toplevel(hnd.body)
                elif isinstance(node, ast.If):
                    yield from toplevel(node.body); yield from toplevel(node.orelse)
        for node in toplevel(tree.body):
            if isinstance(node, ast.ImportFrom) and node.module in REPO_MODULES and node.module != name:
                load_one(node.module)
            if isinstance(node, ast.Import):
                for a in node.names:
                    if a.name in REPO_MODULES and a.name != name: load_one(a.name)
        rw = Rewriter(pkg, modmap)
        if shadows:
            tree = rw.visit(tree)
        else:
            # only redirect sibling imports
            class OnlyImports(Rewriter):
                visit_BinOp = visit_Call = visit_Compare = ast.NodeTransformer.generic_visit
            rw = OnlyImports(pkg, modmap)
            tree = rw.visit(tree)
        ast.fix_missing_locations(tree)
        ld.rewrites[name] = dict(rw.counts)
        import warnings
        with warnings.catch_warnings():
            warnings.simplefilter('ignore')
            code = compile(tree, path, 'exec')
        mod = types.ModuleType(full)
        mod.__file__ = path
        if shadows:
            mod.__dict__.update(SHADOWS)
        if extra_globals: mod.__dict__.update(extra_globals)
        sys.modules[full] = mod
        setattr(pkgmod, name, mod)
        exec(code, mod.__dict__)
        ld.modules[name] = mod
        return mod

    import importlib.abc, importlib.machinery
    class Finder(importlib.abc.MetaPathFinder):
        def find_spec(self, fullname, path, target=None):
            if fullname.startswith(pkg + '.'):
                short = fullname[len(pkg) + 1:]
                if short in REPO_MODULES and os.path.exists(os.path.join(repo, short + '.py')):
                    load_one(short)
                    class L(importlib.abc.Loader):
                        def create_module(self, spec): return sys.modules[fullname]
                        def exec_module(self, module): pass
                    return importlib.machinery.ModuleSpec(fullname, L())
            return None
    sys.meta_path.insert(0, Finder())
    for n in names: load_one(n)
    return ld


def lift_tables(mod, names):
    """Replace module-level numpy float tables by exact-rational object arrays
    (so that n*i*p is exact in symbolic runs)."""
    import numpy as np
    from fractions import Fraction
    for n in names:
        a = getattr(mod, n)
        a = np.asarray(a)
        if a.dtype.kind == 'f':
            out = np.empty(a.shape, dtype=object)
            for idx, v in np.ndenumerate(a): out[idx] = Fraction(float(v))
            setattr(mod, n, out)
