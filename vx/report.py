"""Task running, verdict bookkeeping, known findings, replay and evidence."""
import json
import os
import subprocess
import sys
import time
import traceback
import hashlib
from fractions import Fraction

VERIF = os.path.dirname(os.path.dirname(os.path.abspath(__file__)))
# scratch runs against a mutated copy of the repo must not overwrite the committed evidence
OUT = os.environ.get('VERIF_OUT_DIR') or VERIF
REPLAY_PY = os.environ.get('PYTOUGH_REPLAY_PYTHON', '/venv/bin/python')

EXIT_OK, EXIT_VIOLATION, EXIT_INCONCLUSIVE = 0, 1, 3


def jsonable(x):
    if isinstance(x, Fraction):
        if x.denominator == 1: return int(x)
        return {'frac': [str(x.numerator), str(x.denominator)], 'approx': float(x)}
    if isinstance(x, dict): return {str(k): jsonable(v) for k, v in x.items()}
    if isinstance(x, (list, tuple)): return [jsonable(v) for v in x]
    if isinstance(x, (int, float, str, bool)) or x is None: return x
    return str(x)


def unfrac(x):
    """inverse of jsonable for numbers (used by replays)."""
    if isinstance(x, dict) and 'frac' in x:
        return Fraction(int(x['frac'][0]), int(x['frac'][1]))
    if isinstance(x, dict): return {k: unfrac(v) for k, v in x.items()}
    if isinstance(x, list): return [unfrac(v) for v in x]
    return x


class TaskResult(dict):
    """Picklable summary of one exploration task (one shape)."""
    pass


def summarize(name, res, failures, samples=None, extra=None):
    """Build a TaskResult from sym.explore's return value.
    failures: list of dict(key=..., what=..., replay=<jsonable>) built by the
    harness from the PathResult.failures (which hold z3 models)."""
    st = dict(res['stats'])
    aborted = [p.aborted for p in res['paths'] if p.aborted]
    unknowns = [u['label'] for p in res['paths'] for u in p.unknowns]
    outcomes = {}
    for p in res['paths']:
        outcomes[str(p.outcome)] = outcomes.get(str(p.outcome), 0) + 1
    extra = dict(extra or {})
    extra.setdefault('functions', res.get('functions', []))
    return TaskResult(name=name, stats=st, exhausted=res['exhausted'], pending=res['pending'],
                      aborted=aborted, unknowns=unknowns, failures=failures,
                      outcomes=outcomes, wall_s=res['wall_s'], samples=samples or [],
                      stubs=sorted(res['ctx'].stubs_hit), extra=extra or {})


def run_tasks(tasks, nproc=None, wall_s=None):
    """tasks: list of (callable, kwargs) -> list of TaskResult (or error records).
    Runs in forked worker processes (the reloaded modules are loaded in each
    worker by the callable itself)."""
    import multiprocessing as mp
    nproc = nproc or int(os.environ.get('VX_NPROC', '0') or 0) or 16
    nproc = min(nproc, os.cpu_count() or 1, max(1, len(tasks)))
    if nproc <= 1 or len(tasks) <= 1:
        return [_run_one(t) for t in tasks]
    ctx = mp.get_context('fork')
    out = [None] * len(tasks)
    with ctx.Pool(nproc, maxtasksperchild=8) as pool:
        asyncs = [pool.apply_async(_run_one, (t,)) for t in tasks]
        t0 = time.time()
        for i, a in enumerate(asyncs):
            try:
                remaining = None if wall_s is None else max(1.0, wall_s - (time.time() - t0))
                out[i] = a.get(remaining)
            except mp.TimeoutError:
                out[i] = TaskResult(name=_task_name(tasks[i]), error='task wall-clock limit reached',
                                    stats={}, exhausted=False, failures=[], aborted=['timeout'],
                                    unknowns=[], outcomes={}, wall_s=wall_s or 0, samples=[], stubs=[], extra={}, pending=0)
        pool.terminate()
    return out


def _task_name(t):
    f, kw = t
    return '%s(%s)' % (getattr(f, '__name__', str(f)), ','.join('%s=%s' % kv for kv in sorted(kw.items())))


def _run_one(t):
    f, kw = t
    t0 = time.time()
    try:
        sys.setrecursionlimit(20000)
        r = f(**kw)
        if 'name' not in r or not r['name']: r['name'] = _task_name(t)
        return r
    except BaseException as ex:
        return TaskResult(name=_task_name(t), error='%s: %s\n%s' % (type(ex).__name__, ex, traceback.format_exc()[-3000:]),
                          stats={}, exhausted=False, failures=[], aborted=['exception'],
                          unknowns=[], outcomes={}, wall_s=time.time() - t0, samples=[], stubs=[], extra={}, pending=0)


class Report(object):
    def __init__(self, pid, tier, seed, design_ref=''):
        self.pid, self.tier, self.seed = pid, tier, seed
        self.t0 = time.time()
        self.results = []
        self.inconclusive = []
        self.harness_errors = []
        self.violations = []      # confirmed by replay, not known
        self.known_hits = []
        self.validation_runs = 0
        self.replays_done = 0
        self.assumptions = []
        self.bounds = []
        self.outside = []
        self.functions = set()
        self.trusted = ['z3 %s' % _z3ver(), 'CPython %s' % sys.version.split()[0],
                        'vx proxies + 3-rule AST rewrite (vx/loader.py)']
        self.extra = {}
        self.samples = []
        kf = os.path.join(VERIF, 'known_findings.json')
        self.known = json.load(open(kf)) if os.path.exists(kf) else {'findings': [], 'fixed': []}

    # -- input ------------------------------------------------------------
    def add_results(self, results):
        for r in results:
            self.results.append(r)
            if r.get('error'):
                self.harness_errors.append('%s: %s' % (r['name'], r['error']))
                continue
            if not r['exhausted']:
                self.inconclusive.append('%s: path tree not exhausted (%d pending)' % (r['name'], r.get('pending', 0)))
            for a in r['aborted']:
                self.inconclusive.append('%s: path aborted: %s' % (r['name'], a))
            for u in r['unknowns']:
                self.inconclusive.append('%s: solver unknown on %s' % (r['name'], u))
            for s in r.get('samples', [])[:2]:
                if len(self.samples) < 12: self.samples.append(s)
            for fn in r.get('extra', {}).get('functions', []):
                self.functions.add(fn)

    def validated(self, n=1):
        self.validation_runs += n

    def harness_error(self, msg):
        self.harness_errors.append(msg)

    # -- violations ---------------------------------------------------------
    def process_failures(self, replay_module=None):
        """Replay each distinct failure key on the real code; sort into
        known findings, violations and harness errors."""
        seen = {}
        for r in self.results:
            for f in r.get('failures', []):
                seen.setdefault(f['key'], []).append(f)
        os.makedirs(os.path.join(OUT, 'replays', self.pid), exist_ok=True)
        for key, fl in sorted(seen.items()):
            reproduced = None
            path = None
            for n, f in enumerate(fl[:3]):   # try up to three witnesses per key
                path = os.path.join(OUT, 'replays', self.pid, _safe(key) + ('' if n == 0 else '.%d' % n) + '.json')
                with open(path, 'w') as fh:
                    json.dump(dict(property=self.pid, key=key, what=f.get('what', ''), data=jsonable(f.get('replay'))), fh, indent=1)
                ok, out = run_replay(self.pid, path)
                self.replays_done += 1
                if ok:
                    reproduced = (path, out); break
                last_out = out
            if reproduced is None:
                self.harness_errors.append('counterexample for %s did not reproduce on the real code: %s' % (key, last_out[-400:]))
                continue
            kn = self.match_known(key)
            if kn is not None:
                self.known_hits.append((key, kn, reproduced[0]))
            else:
                self.violations.append((key, fl[0].get('what', ''), reproduced[0]))

    def match_known(self, key):
        for k in self.known.get('findings', []):
            if k.get('property') == self.pid and k.get('key') == key:
                return k
        return None

    # -- output -------------------------------------------------------------
    def finish(self, level='model_checking', rule='', explanation=''):
        wall = time.time() - self.t0
        agg = {}
        for r in self.results:
            for k, v in r.get('stats', {}).items():
                agg[k] = agg.get(k, 0) + v
        paths = int(agg.get('paths', 0))
        distinct = sum(r.get('extra', {}).get('distinct_obligations', 0) for r in self.results)
        cov = dict(
            # transitions: solver-decided branch decisions plus, where a harness counts them, the operations
            # (state transitions of the object under test) executed on the explored paths
            states=max(paths, 0), transitions=int(agg.get('branches', 0)) + int(self.extra.get('operations_executed', 0)),
            traces_validated_against_impl=int(self.validation_runs + self.replays_done),
            samples=self.samples or ['(none)'],
            evaluations=int(agg.get('obligations', 0)),
            distinct_nontrivial=int(distinct),
            rule=rule,
            obligations=int(agg.get('obligations', 0)),
            discharged=int(agg.get('ob_unsat', 0)),
            obligations_sat=int(agg.get('ob_sat', 0)),
            obligations_unknown=int(agg.get('ob_unknown', 0)),
            solver_queries=int(agg.get('queries', 0)),
            solver_time_s=round(agg.get('solver_s', 0.0), 3),
            forks=int(agg.get('forks', 0)), solver_retries=int(agg.get('retries', 0)),
            second_solver=dict(queries=int(agg.get('second_solver_queries', 0)), agree=int(agg.get('second_solver_agree', 0)),
                               inconclusive=int(agg.get('second_solver_inconclusive', 0)), errors=int(agg.get('second_solver_errors', 0)),
                               binary='/usr/bin/z3 4.8.12'),
            tasks=len(self.results),
            tasks_exhausted=sum(1 for r in self.results if r.get('exhausted')),
            functions_encoded=sorted(self.functions),
            bounds=self.bounds, outside_claim=self.outside,
            stubs_hit=sorted(set(s for r in self.results for s in r.get('stubs', []))),
            trusted_base=self.trusted,
            replays=self.replays_done, model_validation_runs=self.validation_runs,
            known_findings_seen=[k for k, _, _ in self.known_hits],
            inconclusive=self.inconclusive[:40], harness_errors=self.harness_errors[:20],
            per_task=[dict(name=r['name'], paths=r.get('stats', {}).get('paths', 0),
                           obligations=r.get('stats', {}).get('obligations', 0),
                           wall_s=round(r.get('wall_s', 0), 2), exhausted=r.get('exhausted'),
                           outcomes=r.get('outcomes')) for r in self.results][:400],
            exhaustive=False, explanation=explanation,
        )
        cov.update(self.extra)
        ev = dict(property_id=self.pid, tier=self.tier, seed=self.seed, level=level,
                  coverage=cov, assumptions=self.assumptions, wall_s=round(wall, 2),
                  violations=len(self.violations))
        os.makedirs(os.path.join(OUT, 'evidence'), exist_ok=True)
        with open(os.path.join(OUT, 'evidence', self.pid + '.json'), 'w') as fh:
            json.dump(jsonable(ev), fh, indent=1)
        for key, kn, path in self.known_hits:
            print('KNOWN-FINDING: property=%s %s [%s] replay=%s' % (self.pid, kn.get('what', ''), key, os.path.relpath(path, OUT)))
        for key, what, path in self.violations:
            print('VIOLATION property=%s replay=%s  (%s: %s)' % (self.pid, os.path.relpath(path, OUT), key, what))
        code = EXIT_OK
        if self.violations: code = EXIT_VIOLATION
        elif self.harness_errors or self.inconclusive: code = EXIT_INCONCLUSIVE
        for h in self.harness_errors[:20]: print('HARNESS-ERROR %s: %s' % (self.pid, h))
        for h in self.inconclusive[:20]: print('INCONCLUSIVE %s: %s' % (self.pid, h))
        print('%s %s: tasks=%d paths=%d obligations=%d unsat=%d sat=%d unknown=%d queries=%d solver=%.1fs wall=%.1fs -> exit %d' % (
            self.pid, self.tier, len(self.results), paths, cov['obligations'], cov['discharged'],
            cov['obligations_sat'], cov['obligations_unknown'], cov['solver_queries'],
            cov['solver_time_s'], wall, code))
        return code


def _safe(s):
    out = ''.join(ch if ch.isalnum() or ch in '-_.' else '_' for ch in s)
    if len(out) > 100: out = out[:80] + hashlib.sha1(s.encode()).hexdigest()[:12]
    return out


def _z3ver():
    try:
        import z3
        return z3.get_version_string()
    except Exception:
        return '?'


def run_replay(pid, path):
    """Run the concrete replay under the repo's own interpreter on the real
    (un-rewritten) modules.  exit 0 = violation reproduced."""
    cmd = [REPLAY_PY, '-W', 'ignore', os.path.join(VERIF, 'harness', 'replay.py'), pid, path]
    env = dict(os.environ)
    env['PYTHONPATH'] = os.environ.get('PYTOUGH_REPO', '/repo')
    # a failure recorded as non-termination is reproduced when the real code does not return
    # within a minute (its replay data says so: {"expect": "nontermination"})
    expect_hang = False
    try:
        import json as _json
        d = _json.load(open(path))
        d = d.get('data', d)
        expect_hang = isinstance(d, dict) and d.get('expect') == 'nontermination'
    except Exception:
        pass
    try:
        p = subprocess.run(cmd, capture_output=True, text=True, timeout=60 if expect_hang else 600, env=env, cwd=VERIF)
    except subprocess.TimeoutExpired:
        if expect_hang: return True, 'the real code did not return within 60 s (non-termination reproduced)'
        return False, 'replay timed out'
    return p.returncode == 0, (p.stdout + p.stderr)
