"""numpy / math stand-ins used by the reloaded PyTOUGH modules.

Everything not overridden here forwards to the real numpy / math.  Float
arrays are created with dtype=object so that symbolic proxies can live in
them and the real vector code runs unchanged."""
import math as _math
import builtins
import types
import numpy as _np
import z3
from . import sym
from .sym import SReal, SInt, SBool, Unsupported, is_sym


def _has_sym(x):
    if is_sym(x): return True
    if isinstance(x, _np.ndarray):
        if x.dtype != object: return False
        return any(is_sym(v) for v in x.flat)
    if isinstance(x, (list, tuple)):
        return any(_has_sym(v) for v in x)
    return False


def _hit(name):
    c = sym.ctx()
    if c is not None: c.stubs_hit.add(name)


def _objectify(a):
    if isinstance(a, _np.ndarray) and a.dtype.kind == 'f':
        return a.astype(object)
    return a


def array(obj, dtype=None, **kw):
    if dtype is not None:
        try:
            kind = _np.dtype(dtype).kind
        except TypeError:
            kind = None
        if kind in ('f', 'i') and _has_sym(obj):
            return _np.array(obj, dtype=object, **kw)
        if kind == 'f':
            return _np.array(obj, dtype=dtype, **kw).astype(object)
        return _np.array(obj, dtype=dtype, **kw)
    a = _np.array(obj, **kw)
    return _objectify(a)


def asarray(obj, dtype=None):
    return array(obj, dtype)


def _shape_fill(shape, val, dtype):
    if dtype is not None:
        try: kind = _np.dtype(dtype).kind
        except TypeError: kind = 'O'
        if kind not in 'f':
            return _np.full(shape, val, dtype=dtype)
    a = _np.empty(shape, dtype=object)
    a.fill(builtins.float(val))
    return a


def zeros(shape, dtype=None, **kw): return _shape_fill(shape, 0.0, dtype)
def ones(shape, dtype=None, **kw): return _shape_fill(shape, 1.0, dtype)
def empty(shape, dtype=None, **kw): return _shape_fill(shape, 0.0, dtype)
def identity(n, dtype=None): return _objectify(_np.identity(n))


def _tofloat(a):
    """object array of concrete numbers -> float array (for real numpy calls)."""
    if isinstance(a, _np.ndarray) and a.dtype == object:
        return a.astype(builtins.float)
    return a


def norm(x, *a, **kw):
    if _has_sym(x):
        _hit('np.linalg.norm')
        if a or kw: raise Unsupported('norm with arguments on symbolic data')
        x = _np.asarray(x, dtype=object).ravel()
        s = 0
        for v in x: s = s + v * v
        return sym.ssqrt(s)
    return _np.linalg.norm(_tofloat(_np.asarray(x)), *a, **kw)


def solve(A, b):
    if _has_sym(A) or _has_sym(b):
        _hit('np.linalg.solve(2x2 Cramer)')
        A = _np.asarray(A, dtype=object); b = _np.asarray(b, dtype=object)
        if A.shape != (2, 2): raise Unsupported('symbolic solve beyond 2x2')
        det = A[0, 0] * A[1, 1] - A[0, 1] * A[1, 0]
        if det == 0:
            raise _np.linalg.LinAlgError('Singular matrix')
        x = (b[0] * A[1, 1] - A[0, 1] * b[1]) / det
        y = (A[0, 0] * b[1] - b[0] * A[1, 0]) / det
        return _np.array([x, y], dtype=object)
    return _objectify(_np.linalg.solve(_tofloat(_np.asarray(A)), _tofloat(_np.asarray(b))))


def inv(A):
    if _has_sym(A):
        A = _np.asarray(A, dtype=object)
        if A.shape != (2, 2): raise Unsupported('symbolic inv beyond 2x2')
        det = A[0, 0] * A[1, 1] - A[0, 1] * A[1, 0]
        if det == 0: raise _np.linalg.LinAlgError('Singular matrix')
        return _np.array([[A[1, 1] / det, -A[0, 1] / det], [-A[1, 0] / det, A[0, 0] / det]], dtype=object)
    return _objectify(_np.linalg.inv(_tofloat(_np.asarray(A))))


linalg = types.SimpleNamespace(norm=norm, solve=solve, inv=inv,
                               LinAlgError=_np.linalg.LinAlgError,
                               pinv=lambda A: _objectify(_np.linalg.pinv(_tofloat(_np.asarray(A)))))


def _elementwise(fname, symf):
    real = getattr(_np, fname)
    def f(x, *a, **kw):
        if _has_sym(x):
            _hit('np.' + fname)
            if isinstance(x, _np.ndarray):
                out = _np.empty(x.shape, dtype=object)
                for idx, v in _np.ndenumerate(x): out[idx] = symf(v)
                return out
            if isinstance(x, (list, tuple)):
                return _np.array([symf(v) for v in x], dtype=object)
            return symf(x)
        r = real(_tofloat(_np.asarray(x)) if isinstance(x, (_np.ndarray, list, tuple)) else x, *a, **kw)
        return _objectify(r) if isinstance(r, _np.ndarray) else r
    f.__name__ = fname
    return f


def _sabs(v): return builtins.abs(v)      # (the module-level name `abs` below is np.abs)
def _ssqrt(v): return sym.ssqrt(v) if is_sym(v) else _math.sqrt(v)

abs = _elementwise('abs', _sabs)
absolute = abs
fabs = abs
sqrt = _elementwise('sqrt', _ssqrt)


def _unsup(name):
    def f(v): raise Unsupported('np.%s of symbolic value' % name)
    return f

cos = _elementwise('cos', _unsup('cos'))
sin = _elementwise('sin', _unsup('sin'))
arcsin = _elementwise('arcsin', _unsup('arcsin'))
exp = _elementwise('exp', _unsup('exp'))
log = _elementwise('log', _unsup('log'))
floor = _elementwise('floor', _unsup('floor'))
ceil = _elementwise('ceil', _unsup('ceil'))


def _seq(a):
    a = _np.asarray(a, dtype=object) if not isinstance(a, _np.ndarray) else a
    return a


def argmin(a, axis=None):
    if _has_sym(a):
        _hit('np.argmin')
        a = _seq(a).ravel()
        best = 0
        for i in range(1, len(a)):
            if a[i] < a[best]: best = i
        return best
    return _np.argmin(_tofloat(_np.asarray(a)), axis)


def argmax(a, axis=None):
    if _has_sym(a):
        _hit('np.argmax')
        a = _seq(a).ravel()
        best = 0
        for i in range(1, len(a)):
            if a[i] > a[best]: best = i
        return best
    return _np.argmax(_tofloat(_np.asarray(a)), axis)


def _nan_free(a):
    """(indices, values) of the entries of a that are not float NaN."""
    a = _seq(a).ravel()
    keep = [i for i in range(len(a)) if not (isinstance(a[i], builtins.float) and a[i] != a[i])]
    return keep, [a[i] for i in keep]

def nanargmax(a, axis=None):
    if _has_sym(a):
        keep, vals = _nan_free(a)      # NaN entries (concrete) are ignored, as numpy does
        if len(keep) < len(_seq(a).ravel()): return keep[argmax(_np.array(vals, dtype=object), axis)]
        return argmax(a, axis)
    return _np.nanargmax(_tofloat(_np.asarray(a)), axis)

def nanargmin(a, axis=None):
    if _has_sym(a):
        keep, vals = _nan_free(a)
        if len(keep) < len(_seq(a).ravel()): return keep[argmin(_np.array(vals, dtype=object), axis)]
        return argmin(a, axis)
    return _np.nanargmin(_tofloat(_np.asarray(a)), axis)


def argsort(a, *args, **kw):
    if _has_sym(a):
        _hit('np.argsort')
        a = _seq(a).ravel()
        idx = list(range(len(a)))
        # stable insertion sort with forking comparisons
        out = []
        for i in idx:
            k = len(out)
            while k > 0 and a[i] < a[out[k - 1]]: k -= 1
            out.insert(k, i)
        return _np.array(out)
    return _np.argsort(_tofloat(_np.asarray(a)), *args, **kw)


def sort(a, *args, **kw):
    if _has_sym(a):
        a = _seq(a)
        return a[argsort(a)]
    return _objectify(_np.sort(_tofloat(_np.asarray(a)), *args, **kw))


def amin(a, axis=None, **kw):
    if _has_sym(a):
        if axis is not None: raise Unsupported('np.min with axis on symbolic data')
        return sym.smin(list(_seq(a).ravel()))
    return _np.min(_tofloat(_np.asarray(a)), axis=axis, **kw)

def amax(a, axis=None, **kw):
    if _has_sym(a):
        if axis is not None: raise Unsupported('np.max with axis on symbolic data')
        return sym.smax(list(_seq(a).ravel()))
    return _np.max(_tofloat(_np.asarray(a)), axis=axis, **kw)

min = amin
max = amax


def isclose(a, b, rtol=1e-05, atol=1e-08, **kw):
    if _has_sym(a) or _has_sym(b):
        _hit('np.isclose')
        if isinstance(a, _np.ndarray) or isinstance(b, _np.ndarray):
            a_, b_ = _np.broadcast_arrays(_np.asarray(a, dtype=object), _np.asarray(b, dtype=object))
            out = _np.empty(a_.shape, dtype=object)
            for idx in _np.ndindex(a_.shape):
                out[idx] = builtins.abs(a_[idx] - b_[idx]) <= atol + rtol * builtins.abs(b_[idx])
            return out
        return builtins.abs(a - b) <= atol + rtol * builtins.abs(b)
    return _np.isclose(_tofloat(_np.asarray(a)), _tofloat(_np.asarray(b)), rtol, atol, **kw)


def allclose(a, b, rtol=1e-05, atol=1e-08, **kw):
    if _has_sym(a) or _has_sym(b):
        r = isclose(a, b, rtol, atol)
        if isinstance(r, _np.ndarray):
            return builtins.all(bool(x) for x in r.flat)
        return bool(r)
    return _np.allclose(_tofloat(_np.asarray(a)), _tofloat(_np.asarray(b)), rtol, atol, **kw)


def linspace(start, stop, num=50, endpoint=True, **kw):
    if is_sym(start) or is_sym(stop):
        n = int(num)
        div = (n - 1) if endpoint else n
        if div <= 0: return _np.array([start][:n], dtype=object)
        step = (stop - start) / div
        return _np.array([start + i * step for i in range(n)], dtype=object)
    return _objectify(_np.linspace(start, stop, num, endpoint, **kw))


def arange(*a, **kw):
    r = _np.arange(*a, **kw)
    return _objectify(r)


def cumsum(a, *args, **kw):
    return _np.cumsum(_np.asarray(a, dtype=object) if _has_sym(a) else a, *args, **kw)


def unique(a, *args, **kw):
    if _has_sym(a):
        _hit('np.unique')
        if args or kw: raise Unsupported('np.unique with options on symbolic data')
        srt = sort(_seq(a).ravel())
        out = []
        for v in srt:
            if not out or not (v == out[-1]): out.append(v)
        return _np.array(out, dtype=object)
    return _objectify(_np.unique(_tofloat(_np.asarray(a)) if _np.asarray(a).dtype == object else a, *args, **kw))


def around(a, decimals=0):
    if _has_sym(a):
        raise Unsupported('np.round of symbolic data')
    return _objectify(_np.round(_tofloat(_np.asarray(a)), decimals))
round = around
round_ = around


def where(cond, *args):
    if _has_sym(cond):
        cond = _np.array([bool(c) for c in _np.asarray(cond, dtype=object).ravel()])
    return _np.where(cond, *args)


def interp(x, xp, fp, *a, **kw):
    if _has_sym(x) or _has_sym(xp) or _has_sym(fp):
        raise Unsupported('np.interp on symbolic data')
    return _np.interp(_tofloat(_np.asarray(x)) if isinstance(x, _np.ndarray) else x,
                      _tofloat(_np.asarray(xp)), _tofloat(_np.asarray(fp)), *a, **kw)


def isnan(x):
    if _has_sym(x):
        if isinstance(x, _np.ndarray): return _np.zeros(x.shape, dtype=bool)
        return False
    return _np.isnan(_tofloat(x) if isinstance(x, _np.ndarray) else x)


def nan_to_num(x, *a, **kw):
    if _has_sym(x): return x
    return _objectify(_np.nan_to_num(_tofloat(_np.asarray(x)), *a, **kw))


def sign(x):
    if is_sym(x):
        return sym.ite(x > 0, 1, sym.ite(x < 0, -1, 0))
    return _np.sign(x)


def meshgrid(*a, **kw):
    return [ _objectify(r) for r in _np.meshgrid(*a, **kw)]


def any_(a, *args, **kw):
    if _has_sym(a) and not args and not kw:
        _hit('np.any')
        for x in _np.asarray(a, dtype=object).ravel():   # short-circuit, left to right
            if x: return True
        return False
    return _np.any(a, *args, **kw)


def all_(a, *args, **kw):
    if _has_sym(a) and not args and not kw:
        _hit('np.all')
        for x in _np.asarray(a, dtype=object).ravel():
            if not x: return False
        return True
    return _np.all(a, *args, **kw)


class _NPShim(types.ModuleType):
    def __getattr__(self, name):
        return getattr(_np, name)


def make_numpy_shim(modname):
    m = _NPShim(modname)
    g = globals()
    m.any = any_; m.all = all_
    for k in ('array', 'asarray', 'zeros', 'ones', 'empty', 'identity', 'linalg', 'abs',
              'absolute', 'fabs', 'sqrt', 'cos', 'sin', 'arcsin', 'exp', 'log', 'floor',
              'ceil', 'argmin', 'argmax', 'nanargmax', 'nanargmin', 'argsort', 'sort',
              'amin', 'amax', 'min', 'max', 'isclose', 'allclose', 'linspace', 'arange',
              'cumsum', 'unique', 'around', 'round', 'round_', 'where', 'interp', 'isnan',
              'nan_to_num', 'sign', 'meshgrid'):
        setattr(m, k, g[k])
    return m


def make_linalg_shim(modname):
    m = types.ModuleType(modname)
    m.norm, m.solve, m.inv = norm, solve, inv
    m.LinAlgError = _np.linalg.LinAlgError
    m.pinv = linalg.pinv
    return m


# ---------------------------------------------------------------------------
# math

def _mathf(name, symf=None):
    real = getattr(_math, name)
    def f(x, *a):
        if is_sym(x) or any(is_sym(v) for v in a):
            _hit('math.' + name)
            if symf is None: raise Unsupported('math.%s of symbolic value' % name)
            return symf(x, *a)
        return real(x, *a)
    f.__name__ = name
    return f


def _sym_asin(x):
    # concretise when the argument is forced to a value with a known arcsine
    from fractions import Fraction
    for val, res in ((1, _math.pi / 2), (-1, -_math.pi / 2), (0, 0.0)):
        if bool(x == val): return res
    raise Unsupported('asin of symbolic value')


def _sym_exp(x):
    c = sym.ctx()
    f = z3.Function('exp', z3.RealSort(), z3.RealSort())
    e = f(sym.lift_real(x))
    c.add(e > 0)
    return SReal(e)


def make_math_shim(modname):
    m = types.ModuleType(modname)
    for k in dir(_math):
        if not k.startswith('_'): setattr(m, k, getattr(_math, k))
    m.sqrt = _mathf('sqrt', lambda x: sym.ssqrt(x))
    m.cos = _mathf('cos'); m.sin = _mathf('sin'); m.tan = _mathf('tan')
    m.asin = _mathf('asin', _sym_asin)
    m.acos = _mathf('acos'); m.atan = _mathf('atan'); m.atan2 = _mathf('atan2')
    m.radians = _mathf('radians', lambda x: x * (_math.pi / 180.0))
    m.degrees = _mathf('degrees', lambda x: x * (180.0 / _math.pi))
    m.exp = _mathf('exp', _sym_exp)
    m.log = _mathf('log'); m.log10 = _mathf('log10')
    m.ceil = _mathf('ceil'); m.floor = _mathf('floor')
    m.fabs = _mathf('fabs', lambda x: abs(x))
    return m
