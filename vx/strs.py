"""Symbolic fixed-length strings (cell lists), the printf model and the
float()/int()/str() shims for them.

An SStr is a Python list of cells with a concrete length.  A cell is
  * a 1-character Python str (concrete), or
  * an SChar: symbolic character, z3 Int code point, or
  * a TokCell: cell k of a number token produced by the printf model.
"""
import builtins
from fractions import Fraction
import z3
from . import sym
from .sym import SReal, SInt, SBool, Unsupported, lift_real, lift_int, numeral_value

_WS = (32, 9, 10, 11, 12, 13)
_NUM_ALPHABET = '0123456789+-.einfa'   # characters a %e/%f/%d rendering can contain


class SChar(object):
    __slots__ = ('code',)
    def __init__(self, code):
        self.code = code
    def __repr__(self): return '<%s>' % self.code


class DChar(SChar):
    """Symbolic character with a known finite set of possible code points
    (`dom`, a frozenset of ints).  Create with dom_char(), which puts the
    membership constraint on the path condition; comparisons against characters
    outside the domain are then decided without a solver call.  (C05: digit
    cells and sign cells of printed table rows.)"""
    __slots__ = ('dom',)
    def __init__(self, code, dom):
        self.code = code
        self.dom = frozenset(dom)
    def __repr__(self): return '<%s:%s>' % (self.code, ''.join(chr(d) for d in sorted(self.dom)))

_DIGIT_CODES = frozenset(range(48, 58))

def dom_char(name, dom):
    """A fresh DChar named `name` whose code is constrained (on the current
    path) to the code points / characters in `dom`."""
    dom = frozenset(ord(d) if isinstance(d, str) else builtins.int(d) for d in dom)
    e = z3.Int(name)
    lo, hi = builtins.min(dom), builtins.max(dom)
    if builtins.len(dom) == hi - lo + 1:
        sym.ctx().add(z3.And(e >= lo, e <= hi))
    else:
        sym.ctx().add(z3.Or(*[e == d for d in sorted(dom)]))
    return DChar(e, dom)


class Tok(object):
    bounds = (None, None)
    """A rendered number: value term, format, cell count n (concrete),
    natural length L (z3 Int, L <= n, and L == n if n > w)."""
    _ids = 0
    def __init__(self, kind, val, w, p, n, L, rv, left=False):
        self.kind, self.val, self.w, self.p, self.n, self.L, self.rv = kind, val, w, p, n, L, rv
        self.left = left
        self.codes = {}
        self.name = sym.ctx().fresh_name('tok')

    def pad_cond(self, k):
        """z3 Bool: cell k is a padding blank."""
        if self.left:
            return self.L <= k
        return self.L <= self.n - 1 - k

    def code(self, k):
        c = self.codes.get(k)
        if c is None:
            c = z3.Int('%s.c%d' % (self.name, k))
            self.codes[k] = c
            cx = sym.ctx()
            pad = self.pad_cond(k)
            if self.kind == 'd' and not self.left:
                # integers: the characters are exactly known
                j = self.n - 1 - k          # position from the right, 0 = units
                x = self.val
                ax = z3.If(x >= 0, x, -x)
                digit = (ax / (10 ** j)) % 10
                cx.add(c == z3.If(pad, 32, z3.If(z3.And(x < 0, self.L == j + 1), 45, 48 + digit)))
            else:
                alpha = z3.Or(*[c == ord(ch) for ch in _NUM_ALPHABET])
                cx.add(z3.If(pad, c == 32, alpha))
        return c


class TokCell(object):
    __slots__ = ('tok', 'k')
    def __init__(self, tok, k):
        self.tok, self.k = tok, k
    @property
    def code(self):
        return self.tok.code(self.k)
    def __repr__(self): return '<%s[%d]>' % (self.tok.name, self.k)


def cell_code(c):
    if isinstance(c, str): return z3.IntVal(ord(c))
    return c.code

def cell_is_ws(c):
    """python bool or z3 Bool: is the cell whitespace."""
    if isinstance(c, str): return c.isspace()
    if isinstance(c, TokCell):
        return z3.simplify(c.tok.pad_cond(c.k))
    e = c.code
    if isinstance(c, DChar):
        ws = [w for w in _WS if w in c.dom]
        if not ws: return False
        if builtins.len(ws) == builtins.len(c.dom): return True
        return z3.Or(*[e == w for w in ws]) if builtins.len(ws) > 1 else (e == ws[0])
    return z3.Or(*[e == w for w in _WS])

def _zb(x):
    return z3.BoolVal(x) if isinstance(x, bool) else x

def cells_equal(a, b):
    """python bool or z3 Bool."""
    if isinstance(a, str) and isinstance(b, str): return a == b
    if a is b: return True
    if isinstance(a, DChar) or isinstance(b, DChar):
        # domain-aware shortcuts (decided without the solver)
        da = a.dom if isinstance(a, DChar) else (frozenset([ord(a)]) if isinstance(a, str) else None)
        db = b.dom if isinstance(b, DChar) else (frozenset([ord(b)]) if isinstance(b, str) else None)
        if da is not None and db is not None:
            common = da & db
            if not common: return False
            if builtins.len(da) == 1 and builtins.len(db) == 1: return True
    if isinstance(a, TokCell) and isinstance(b, TokCell):
        ta, tb = a.tok, b.tok
        if ta is tb: return a.k == b.k
        if ta.kind == tb.kind and ta.p == tb.p and ta.n == tb.n and a.k == b.k \
           and ta.left == tb.left:
            return tok_text_equal(ta, tb)
    if isinstance(a, TokCell) and isinstance(b, str) or isinstance(b, TokCell) and isinstance(a, str):
        t, s = (a, b) if isinstance(a, TokCell) else (b, a)
        if s == ' ': return z3.simplify(t.tok.pad_cond(t.k))
        if s not in _NUM_ALPHABET: return False
    return cell_code(a) == cell_code(b)

def tok_text_equal(ta, tb):
    """Two renderings in the same format are the same text iff they read
    back as the same number (and have the same sign when that number is 0,
    which real arithmetic cannot see: outside the model)."""
    return z3.And(_zb(z3.simplify(lift_real(ta.rv) == lift_real(tb.rv))), ta.L == tb.L)


class SStr(object):
    """Fixed-length symbolic string."""
    __slots__ = ('cells', 'lflag', 'rflag', 'hv')

    def __init__(self, cells, lflag=False, rflag=False):
        self.cells = list(cells)
        self.lflag = lflag     # leading whitespace cells are to be ignored (lazy strip)
        self.rflag = rflag
        self.hv = 0            # hash; non-zero only after pin() (see s_in on dicts / sets)

    def pin(self, text):
        """The path condition now says this string IS the concrete `text` (a
        membership test against a hashed container of concrete keys came out
        true): make the object concrete in place, with str's hash, so that a
        following `container[self]` finds the key.  (Do not use on an object
        that is itself stored as a key of a dict of symbolic names.)"""
        self.cells = list(text); self.lflag = self.rflag = False
        self.hv = hash(text)

    # -- construction helpers
    @staticmethod
    def of(x):
        if isinstance(x, SStr): return x
        if isinstance(x, str): return SStr(list(x))
        raise TypeError('not a string: %r' % (x,))

    def is_concrete(self):
        return all(isinstance(c, str) for c in self.cells)

    def concrete(self):
        return ''.join(self.cells)

    def _resolved(self):
        """Resolve lazy strip flags by forking on the symbolic blanks."""
        if not (self.lflag or self.rflag): return self
        cells = list(self.cells)
        if self.lflag:
            while cells and _truth(cell_is_ws(cells[0])): cells.pop(0)
        if self.rflag:
            while cells and _truth(cell_is_ws(cells[-1])): cells.pop()
        return SStr(cells)

    def __hash__(self): return self.hv
    def __len__(self):
        s = self._resolved()
        return builtins.len(s.cells)
    def __bool__(self):
        if not (self.lflag or self.rflag): return builtins.len(self.cells) > 0
        nb = [cell_is_ws(c) for c in self.cells]
        if any(x is False for x in nb): return True
        return bool(SBool(z3.Not(z3.And(*[_zb(x) for x in nb]))) ) if nb else False

    def __iter__(self):
        s = self._resolved()
        for c in s.cells: yield _mk([c])

    def __getitem__(self, i):
        s = self._resolved()
        if isinstance(i, slice):
            st = tuple(x if x is None else builtins.int(x) for x in (i.start, i.stop, i.step))
            return _mk(s.cells[slice(*st)])
        return _mk([s.cells[builtins.int(i)]])

    def __add__(self, o):
        if isinstance(o, (str, SStr)):
            return _mk(self._resolved().cells + SStr.of(o)._resolved().cells)
        return NotImplemented
    def __radd__(self, o):
        if isinstance(o, str):
            return _mk(list(o) + self._resolved().cells)
        return NotImplemented
    def __mul__(self, n):
        return _mk(self._resolved().cells * n)

    # -- comparison
    def eq_expr(self, o):
        """python bool or z3 Bool for self == o."""
        if not isinstance(o, (str, SStr)): return False
        o = SStr.of(o)
        if self.lflag or self.rflag or o.lflag or o.rflag:
            return _flag_eq(self, o)
        if builtins.len(self.cells) != builtins.len(o.cells): return False
        parts = []
        for a, b in zip(self.cells, o.cells):
            r = cells_equal(a, b)
            if r is False: return False
            if r is True: continue
            parts.append(r)
        if not parts: return True
        return z3.And(*parts)

    def __eq__(self, o):
        r = self.eq_expr(o)
        if isinstance(r, bool): return r
        r = z3.simplify(r)
        if z3.is_true(r): return True
        if z3.is_false(r): return False
        return SBool(r)
    def __ne__(self, o):
        r = self.__eq__(o)
        if isinstance(r, bool): return not r
        return SBool(z3.Not(r.e))

    def _ord(self, o, strict, less):
        # lexicographic comparison; used by sorted() on names
        o = SStr.of(o)
        a, b = self._resolved().cells, o._resolved().cells
        n = builtins.min(builtins.len(a), builtins.len(b))
        # build from the end
        if builtins.len(a) == builtins.len(b): tail = z3.BoolVal(not strict)
        elif (builtins.len(a) < builtins.len(b)) == less: tail = z3.BoolVal(True)
        else: tail = z3.BoolVal(False)
        r = tail
        for k in range(n - 1, -1, -1):
            ca, cb = cell_code(a[k]), cell_code(b[k])
            lt = (ca < cb) if less else (ca > cb)
            r = z3.If(lt, True, z3.If(ca == cb, r, False))
        r = z3.simplify(r)
        if z3.is_true(r): return True
        if z3.is_false(r): return False
        return SBool(r)
    def __lt__(self, o): return self._ord(o, True, True)
    def __le__(self, o): return self._ord(o, False, True)
    def __gt__(self, o): return self._ord(o, True, False)
    def __ge__(self, o): return self._ord(o, False, False)

    # -- str methods
    def strip(self, chars=None):
        return self.lstrip(chars).rstrip(chars)

    def lstrip(self, chars=None):
        if chars is not None:
            return _strip_chars(self, chars, True, False)
        cells = list(self.cells)
        while cells and _definitely_true(cell_is_ws(cells[0])): cells.pop(0)
        lflag = bool(cells) and not _definitely_false(cell_is_ws(cells[0]))
        return _mk(cells, lflag, self.rflag and bool(cells))

    def rstrip(self, chars=None):
        if chars is not None:
            return _strip_chars(self, chars, False, True)
        cells = list(self.cells)
        while cells and _definitely_true(cell_is_ws(cells[-1])): cells.pop()
        rflag = bool(cells) and not _definitely_false(cell_is_ws(cells[-1]))
        return _mk(cells, self.lflag and bool(cells), rflag)

    def _cells_keepflags(self):
        return self.cells

    def startswith(self, p):
        s = self._resolved()
        if isinstance(p, tuple): return sym.sor(*[self.startswith(x) for x in p])
        p = SStr.of(p)
        n = builtins.len(p.cells)
        if n > builtins.len(s.cells): return False
        return _mk(s.cells[:n]) == p
    def endswith(self, p):
        s = self._resolved()
        p = SStr.of(p)
        n = builtins.len(p.cells)
        if n > builtins.len(s.cells): return False
        if n == 0: return True
        return _mk(s.cells[-n:]) == p

    def ljust(self, w, fill=' '):
        s = self._resolved()
        return _mk(s.cells + [fill] * builtins.max(0, w - builtins.len(s.cells)))
    def rjust(self, w, fill=' '):
        s = self._resolved()
        return _mk([fill] * builtins.max(0, w - builtins.len(s.cells)) + s.cells)

    def _map(self, f):
        s = self._resolved()
        out = []
        for c in s.cells:
            if isinstance(c, str): out.append(f(c))
            elif isinstance(c, TokCell): out.append(c)   # number chars: case handled by caller
            else: out.append(c)
        return out

    def upper(self):
        s = self._resolved()
        out = []
        for c in s.cells:
            if isinstance(c, str): out.append(c.upper())
            elif isinstance(c, TokCell): out.append(c)
            elif isinstance(c, DChar) and not any(97 <= d <= 122 for d in c.dom): out.append(c)
            else:
                e = c.code
                out.append(SChar(z3.If(z3.And(e >= 97, e <= 122), e - 32, e)))
        return _mk(out)
    def lower(self):
        s = self._resolved()
        out = []
        for c in s.cells:
            if isinstance(c, str): out.append(c.lower())
            elif isinstance(c, TokCell): out.append(c)
            elif isinstance(c, DChar) and not any(65 <= d <= 90 for d in c.dom): out.append(c)
            else:
                e = c.code
                out.append(SChar(z3.If(z3.And(e >= 65, e <= 90), e + 32, e)))
        return _mk(out)

    def replace(self, old, new):
        s = self._resolved()
        if builtins.len(old) != 1:
            raise Unsupported('SStr.replace with multi-char pattern')
        out = []
        for c in s.cells:
            if isinstance(c, str):
                out.extend(new if c == old else c)
                continue
            r = cells_equal(c, old)
            if r is False or _definitely_false(r): out.append(c); continue
            if r is True or _definitely_true(r): out.extend(new); continue
            if builtins.len(new) != 1 or isinstance(c, DChar):
                # fork (a DChar has a small domain: keeping it a DChar / a concrete
                # character keeps the string readable by the numeric-cell reader)
                if _truth(r): out.extend(new)
                else: out.append(c)
            else:
                out.append(SChar(z3.If(r, ord(new), c.code)))
        return _mk(out)

    def isdigit(self):
        s = self._resolved()
        if not s.cells: return False
        if any(isinstance(c, DChar) for c in s.cells):
            known = [(c.isdigit() and c.isascii()) if isinstance(c, str) else
                     (True if c.dom <= _DIGIT_CODES else (False if not (c.dom & _DIGIT_CODES) else None))
                     if isinstance(c, DChar) else None for c in s.cells]
            if any(k is False for k in known): return False
            if all(k is True for k in known): return True
        return SBool(z3.And(*[z3.And(cell_code(c) >= 48, cell_code(c) <= 57) for c in s.cells]))

    def isspace(self):
        s = self
        if not s.cells: return False
        return SBool(z3.And(*[_zb(cell_is_ws(c)) for c in s.cells]))

    def find(self, sub, start=None, end=None):
        """str.find for a one-character pattern: first position in [start, end)
        whose cell equals it, -1 if none (forks on cells that may or may not
        match; cells that cannot match are skipped without a solver call)."""
        s = self._resolved()
        sub = SStr.of(sub)._resolved()
        if builtins.len(sub.cells) != 1: raise Unsupported('SStr.find of a pattern that is not one character')
        n = builtins.len(s.cells)
        lo, hi, _ = slice(None if start is None else builtins.int(start),
                          None if end is None else builtins.int(end)).indices(n)
        for k in range(lo, hi):
            r = cells_equal(s.cells[k], sub.cells[0])
            if r is False: continue
            if r is True or _truth(r): return k
        return -1

    def index(self, sub):
        """first position of a one-character string (forks per position)."""
        s = self._resolved()
        sub = SStr.of(sub)._resolved()
        if builtins.len(sub.cells) != 1: raise Unsupported('SStr.index of a longer string')
        for k, c in enumerate(s.cells):
            if _truth(cells_equal(c, sub.cells[0])): return k
        raise ValueError('substring not found')

    def partition(self, sep):
        raise Unsupported('SStr.partition')

    def split(self, sep=None, maxsplit=-1):
        """str.split() on whitespace (forks on cells that may or may not be
        whitespace); other separators are not modelled."""
        if sep is not None or maxsplit != -1: raise Unsupported('SStr.split with a separator / maxsplit')
        out, cur = [], []
        lazy = [False]
        def flush():
            if cur: out.append(_mk(list(cur), lazy[0], False)); del cur[:]
            lazy[0] = False
        cells = self.cells
        for k, c in enumerate(cells):
            w = cell_is_ws(c)
            if w is not False and w is not True and not cur and k + 1 < builtins.len(cells) \
               and cell_is_ws(cells[k + 1]) is False:
                # a cell that is either whitespace or the first character of the word that
                # certainly starts at the next cell: kept as a lazily stripped leading cell
                # (same word list either way, no fork)
                cur.append(c); lazy[0] = True
                continue
            if w is not False and (w is True or _truth(w)):
                flush()
            else:
                cur.append(c)
        flush()
        return out

    def encode(self, *a):
        raise Unsupported('SStr.encode (C boundary)')

    def __contains__(self, sub):
        return bool(contains(self, sub))

    def __repr__(self):
        return 'SStr(%s%s)' % (''.join(c if isinstance(c, str) else repr(c) for c in self.cells),
                               ',flags=%d%d' % (self.lflag, self.rflag) if self.lflag or self.rflag else '')

    def __str__(self):
        # only reached from exception messages / printing (str() inside the reloaded
        # modules is routed to sstr): give a readable placeholder, never raise
        return repr(self)


def _mk(cells, lflag=False, rflag=False):
    """Return a python str if every cell is concrete, else an SStr."""
    if all(isinstance(c, str) for c in cells):
        s = ''.join(cells)
        return s
    return SStr(cells, lflag, rflag)


def _definitely_false(x):
    if x is False: return True
    if x is True: return False
    return z3.is_false(z3.simplify(x))

def _definitely_true(x):
    if x is True: return True
    if x is False: return False
    return z3.is_true(z3.simplify(x))

def _truth(x):
    """fork on a python-bool-or-z3-Bool."""
    if isinstance(x, bool): return x
    return sym.ctx().branch(x)


def _flag_eq(a, b):
    """Equality when one side has lazy strip flags.  Supported: other side
    concrete (or flag-free)."""
    if (b.lflag or b.rflag) and not (a.lflag or a.rflag): a, b = b, a
    if b.lflag or b.rflag:
        a = a._resolved(); b = b._resolved()
        return a.eq_expr(b)
    bc = b.cells
    n, m = builtins.len(a.cells), builtins.len(bc)
    if m > n: return False
    alts = []
    offs = range(0, n - m + 1)
    for off in offs:
        if off > 0 and not a.lflag: break
        if off + m < n and not a.rflag: continue
        parts = []
        ok = True
        for k in range(n):
            if off <= k < off + m:
                r = cells_equal(a.cells[k], bc[k - off])
            else:
                r = cell_is_ws(a.cells[k])
            if r is False: ok = False; break
            if r is True: continue
            parts.append(r)
        if not ok: continue
        # the matched content must itself not start/end with whitespace if stripping: b is what remains
        alts.append(z3.And(*parts) if parts else z3.BoolVal(True))
    if not alts: return False
    # b must not have leading / trailing whitespace itself when flags set
    if m > 0:
        if a.lflag:
            w = cell_is_ws(bc[0])
            if w is True: return False
            if w is not False: alts = [z3.And(x, z3.Not(w)) for x in alts]
        if a.rflag:
            w = cell_is_ws(bc[-1])
            if w is True: return False
            if w is not False: alts = [z3.And(x, z3.Not(w)) for x in alts]
    return z3.Or(*alts)


def _strip_chars(s, chars, left, right):
    cells = list(s._resolved().cells)
    def inset(c):
        if isinstance(c, str): return c in chars
        r = z3.Or(*[_zb(cells_equal(c, ch)) for ch in chars])
        r = z3.simplify(r)
        if z3.is_false(r): return False
        if z3.is_true(r): return True
        return sym.ctx().branch(r)
    if right:
        while cells and inset(cells[-1]): cells.pop()
    if left:
        while cells and inset(cells[0]): cells.pop(0)
    return _mk(cells)


def contains(hay, needle):
    """`needle in hay` for strings (either may be symbolic)."""
    hay, needle = SStr.of(hay)._resolved(), SStr.of(needle)._resolved()
    n, m = builtins.len(hay.cells), builtins.len(needle.cells)
    if m == 0: return True
    if m > n: return False
    alts = []
    for off in range(n - m + 1):
        r = _mk(hay.cells[off:off + m]) == _mk(needle.cells)
        if r is True: return True
        if r is False: continue
        alts.append(r.e)
    if not alts: return False
    return SBool(z3.Or(*alts))


def is_symstr(x):
    return isinstance(x, SStr)


# ---------------------------------------------------------------------------
# printf model

_Rfuncs = {}

def Rfunc(kind, p):
    k = (kind, p)
    f = _Rfuncs.get(k)
    if f is None:
        f = z3.Function('R_%s%d' % (kind, p), z3.RealSort(), z3.RealSort())
        _Rfuncs[k] = f
    return f

MAXDIG = 40

def _ndigits(absint_ge):
    """1 + sum_k [x >= 10^k]; absint_ge(k) gives the z3 Bool x >= 10^k."""
    return 1 + z3.Sum(*[z3.If(absint_ge(k), 1, 0) for k in range(1, MAXDIG)])


def rounded_value(kind, p, val):
    """z3 Real term for the value read back from '%w.p<kind>' % val, with its
    axioms added to the path condition."""
    cx = sym.ctx()
    x = lift_real(val)
    if kind == 'd':
        return x
    R = Rfunc(kind, p)
    r = R(x)
    key = ('R', kind, p, x.get_id())
    if key in cx.sqrt_cache: return r
    cx.sqrt_cache[key] = (x, r)
    if kind == 'e':
        if p >= 17:
            cx.add(r == x)
        else:
            eps = z3.RealVal(Fraction(1, 2 * 10 ** p))
            cx.add(z3.If(x == 0, r == 0,
                         z3.If(x > 0, z3.And(r >= x * (1 - eps), r <= x * (1 + eps), r > 0),
                               z3.And(r <= x * (1 - eps), r >= x * (1 + eps), r < 0))))
        # thresholds where the exponent gets a third digit: the rendering is on
        # the decimal grid of p+1 significant digits, so just below T the
        # largest printable value is T*(1 - 10^-(p+1)) (ties left open)
        a = z3.If(x >= 0, x, -x); ar = z3.If(r >= 0, r, -r)
        for T in (Fraction(10) ** 100, Fraction(1, 10 ** 99)):
            below = T * (1 - Fraction(1, 10 ** (p + 1)))
            mid = T * (1 - Fraction(1, 2 * 10 ** (p + 1)))
            cx.add(z3.Implies(a > z3.RealVal(mid), ar >= z3.RealVal(T)))
            cx.add(z3.Implies(a < z3.RealVal(mid), ar <= z3.RealVal(below)))
    elif kind == 'f':
        if p >= 17:
            cx.add(r == x)
        else:
            eps = z3.RealVal(Fraction(1, 2 * 10 ** p))
            cx.add(z3.And(r - x <= eps, x - r <= eps))
            cx.add(z3.Implies(x >= 0, r >= 0)); cx.add(z3.Implies(x <= 0, r <= 0))
            a = z3.If(x >= 0, x, -x); ar = z3.If(r >= 0, r, -r)
            step = Fraction(1, 10 ** p)
            for k in range(1, MAXDIG):
                T = Fraction(10 ** k)
                cx.add(z3.Implies(a > z3.RealVal(T - step / 2), ar >= z3.RealVal(T)))
                cx.add(z3.Implies(a < z3.RealVal(T - step / 2), ar <= z3.RealVal(T - step)))
    else:
        raise Unsupported('format kind %r' % kind)
    cx.add(R(r) == r)       # printing the re-read number gives the same digits
    return r


def natural_length(kind, p, val, r):
    """z3 Int: number of characters of the unpadded rendering."""
    x = lift_real(val)
    neg = z3.If(x < 0, 1, 0)
    if kind == 'd':
        ax = z3.If(x >= 0, x, -x)
        return neg + 1 + z3.Sum(*[z3.If(ax >= 10 ** k, 1, 0) for k in range(1, 21)])   # integers below 10^20
    ar = z3.If(r >= 0, r, -r)
    if kind == 'e':
        three = z3.Or(ar >= z3.RealVal(Fraction(10) ** 100),
                      z3.And(ar > 0, ar < z3.RealVal(Fraction(1, 10 ** 99))))
        return neg + 1 + (1 if p > 0 else 0) + p + 2 + z3.If(three, 3, 2)
    if kind == 'f':
        return neg + _ndigits(lambda k: ar >= 10 ** k) + (1 if p > 0 else 0) + p
    raise Unsupported('format kind %r' % kind)


def _exact_int_cells(cx, x, w):
    """'%<w>d' % x for an integer term x the path condition makes >= 0, as
    SChar cells that carry the decimal digits themselves (so that names built
    from numbers can be compared character by character).  Forks on the number
    of digits.  Only used when the harness sets ctx.exact_int_digits = True."""
    if cx.solve(x < 0)[0] != 'unsat': return None
    n = None
    for cand in range(1, 19):
        if cx.branch(x < 10 ** cand):
            n = cand; break
    if n is None: raise Unsupported('exact digits: integer beyond 10^18')
    cells = [SChar(48 + (x / (10 ** (n - 1 - k))) % 10) for k in range(n)]
    return _pad(cells, w, False)


def render_number(kind, w, p, val, left=False, maxlen=None):
    """'%<w>.<p><kind>' % val for a symbolic number -> list of cells.
    Forks on whether the rendering fits the field, and on the exact
    length if it does not."""
    cx = sym.ctx()
    if kind == 'd':
        if isinstance(val, SReal):
            raise Unsupported('%d of symbolic real')
        x = lift_int(val)
        r = x
        if getattr(cx, 'exact_int_digits', False) and not left:
            cells = _exact_int_cells(cx, x, w)      # opt-in (C17): digit-exact cells
            if cells is not None: return cells
    else:
        x = lift_real(val)
        r = rounded_value(kind, p, x)
    nknown = None
    if kind == 'd' and isinstance(val, SInt) and val.lo is not None and val.hi is not None and val.lo >= 0 \
       and builtins.len(builtins.str(val.lo)) == builtins.len(builtins.str(val.hi)):
        # same number of digits over the whole (asserted) range: nothing to fork on
        nknown = builtins.len(builtins.str(val.hi))
        L = z3.IntVal(nknown)
    elif kind != 'd' and z3.is_app(x) and x.num_args() == 1 and x.decl().eq(Rfunc(kind, p)):
        # printing a value that was itself read back from this format gives the
        # same text as the original value did (R is idempotent): use the original's
        # length term, which the path already knows about
        L = natural_length(kind, p, x.arg(0), x)
    else:
        L = natural_length(kind, p, x, r)
    if nknown is not None:
        n = builtins.max(w, nknown)
    elif cx.branch(L <= w):
        n = w
    else:
        n = None
        top = maxlen or (w + 1 + MAXDIG + p + 8)
        for cand in range(w + 1, top + 1):
            if cx.branch(L == cand):
                n = cand; break
        if n is None:
            raise Unsupported('rendering longer than %d' % top)
    tok = Tok(kind, x, w, p, n, L, r, left)
    if isinstance(val, SInt): tok.bounds = (val.lo, val.hi)
    cx.add(z3.And(L >= 1, L <= n))
    return [TokCell(tok, k) for k in range(n)]


import re
_spec_re = re.compile(r'%(?P<flags>[-+ #0]*)(?P<w>\d+)?(?:\.(?P<p>\d+))?(?P<t>[sdeEfFgGir%])')

def smod(fmt, args):
    """fmt % args with symbolic support (installed in place of the % operator
    in the reloaded modules)."""
    if not isinstance(fmt, (str, SStr)):
        return fmt % args
    if isinstance(fmt, SStr):
        raise Unsupported('symbolic format string')
    tup = args if isinstance(args, tuple) else (args,)
    if not any(isinstance(a, (SStr, SReal, SInt, SBool)) for a in tup):
        return fmt % args
    out = []
    pos = 0
    ai = 0
    for m in _spec_re.finditer(fmt):
        out.extend(fmt[pos:m.start()])
        pos = m.end()
        t = m.group('t')
        if t == '%':
            out.append('%'); continue
        a = tup[ai]; ai += 1
        flags = m.group('flags') or ''
        w = builtins.int(m.group('w') or 0)
        p = m.group('p')
        left = '-' in flags
        if any(f in flags for f in '+ #0'):
            if isinstance(a, (SReal, SInt, SStr)):
                raise Unsupported('printf flags %r with symbolic value' % flags)
        if not isinstance(a, (SStr, SReal, SInt, SBool)):
            piece = ('%' + flags + (str(w) if m.group('w') else '') +
                     ('.' + p if p is not None else '') + t) % (a,)
            out.extend(piece); continue
        if t == 's':
            if isinstance(a, SStr):
                cells = a._resolved().cells
                if p is not None: cells = cells[:builtins.int(p)]
                pad = [' '] * builtins.max(0, w - builtins.len(cells))
                out.extend(cells + pad if left else pad + cells)
            elif isinstance(a, SInt):
                out.extend(_pad(render_number('d', 0, 0, a), w, left))
            else:
                raise Unsupported('%%s of %s' % type(a).__name__)
        elif t in 'di':
            if isinstance(a, SBool): a = SInt(z3.If(a.e, 1, 0))
            out.extend(render_number('d', w, 0, a, left))
        elif t in 'eEfF':
            pp = 6 if p is None else builtins.int(p)
            out.extend(render_number(t.lower(), w, pp, a, left))
        else:
            raise Unsupported('printf conversion %%%s with symbolic value' % t)
    out.extend(fmt[pos:])
    return _mk(out)


def _pad(cells, w, left):
    pad = [' '] * builtins.max(0, w - builtins.len(cells))
    return cells + pad if left else pad + cells


def sjoin(sep, items):
    items = list(items)
    from . import bstr as _b
    if any(isinstance(i, _b.BStr) for i in items): return _b.join(sep, items)
    if isinstance(sep, str) and all(isinstance(i, str) for i in items):
        return sep.join(items)
    out = []
    sepc = SStr.of(sep)._resolved().cells
    for k, it in enumerate(items):
        if k: out.extend(sepc)
        out.extend(SStr.of(it)._resolved().cells)
    return _mk(out)


def s_in(a, b):
    """a in b"""
    if isinstance(b, (str, SStr)) and isinstance(a, (str, SStr)) and \
       (isinstance(a, SStr) or isinstance(b, SStr)):
        return contains(b, a)
    if isinstance(a, SStr) and isinstance(b, (dict, set, frozenset)):
        return _in_hashed(a, b)
    return a in b

def _in_hashed(a, b):
    """symbolic string `in` a dict / set: a hashed lookup would look at the
    constant hash of the proxy and miss every concrete key without asking the
    solver.  Fork per key (sorted, for determinism); on the branch where the
    string equals a concrete key it is pinned to that key, so that a following
    `b[a]` works.  Symbolic keys (hash 0) are compared as usual."""
    if a.hv: return a.concrete() in b
    keys = [k for k in b if isinstance(k, (str, SStr))]
    keys.sort(key=lambda k: (0, k) if isinstance(k, str) else (1, ''))
    for k in keys:
        r = a == k
        if isinstance(r, bool):
            if r:
                if isinstance(k, str): a.pin(k)
                return True
            continue
        if bool(r):
            if isinstance(k, str): a.pin(k)
            return True
    return False

def s_not_in(a, b):
    r = s_in(a, b)
    if isinstance(r, SBool): return sym.snot(r)
    return not r


# ---------------------------------------------------------------------------
# float() / int() / str() / len() shims

def _token_read(s, want):
    """Value read from a cell string that contains number-token cells.
    Returns (value SReal/SInt) or raises ValueError (blank)."""
    cx = sym.ctx()
    cells = s.cells
    # definitely-blank concrete cells can be dropped at both ends
    i, j = 0, builtins.len(cells)
    while i < j and isinstance(cells[i], str) and cells[i].isspace(): i += 1
    while j > i and isinstance(cells[j - 1], str) and cells[j - 1].isspace(): j -= 1
    core = cells[i:j]
    if not core:
        raise ValueError('could not convert string to float: blank')
    toks = []
    for c in core:
        if isinstance(c, TokCell):
            if not toks or toks[-1] is not c.tok: toks.append(c.tok)
    if builtins.len(toks) == 1 and all(isinstance(c, TokCell) for c in core):
        tok = toks[0]
        ks = [c.k for c in core]
        if ks == list(range(ks[0], ks[0] + builtins.len(ks))) and ks[-1] == tok.n - 1 and not tok.left:
            a = ks[0]
            # complete iff all non-pad cells are inside: L <= n - a
            full = z3.simplify(tok.L <= tok.n - a)
            if want == 'int' and tok.kind != 'd':
                # int('1.5e3') raises
                raise ValueError('invalid literal for int() (real token)')
            val = tok.rv
            if z3.is_true(full):
                return _wrap(val, want, tok)
            if cx.branch(full):
                return _wrap(val, want, tok)
            # truncated token: part of the digits are cut off
            cx.misaligned = True
            cx.note('truncated token read %s[%d:]' % (tok.name, a))
            return _garbage(want)
    if all(c.tok.kind == 'd' and not c.tok.left for c in core if isinstance(c, TokCell)):
        # integer renderings have exactly known characters: read by character code
        return _charstr_read(s, want)
    cx.misaligned = True
    cx.note('misaligned read: %r' % (s,))
    return _garbage(want)


def _wrap(val, want, tok):
    if want == 'int':
        r = SInt(val) if z3.is_int(val) else SInt(z3.ToInt(val))
        r.lo, r.hi = tok.bounds
        return r
    if z3.is_int(val): return SReal(z3.ToReal(val))
    return SReal(val)


def _garbage(want):
    cx = sym.ctx()
    if want == 'int':
        return SInt(z3.Int(cx.fresh_name('garbage')))
    return SReal(z3.Real(cx.fresh_name('garbage')))


def _charstr_read(s, want):
    """float()/int() of a string with symbolic *characters* (no tokens):
    whitespace is stripped by forking, an optional sign, then digits only
    (underscores, exponents and decimal points in symbolic characters are not
    modelled: Unsupported if the cells could be such characters)."""
    cx = sym.ctx()
    t = s.strip()
    t = t._resolved() if isinstance(t, SStr) else SStr(list(t))
    cells = t.cells
    if not cells:
        raise ValueError('invalid literal (blank)')
    sign = 1
    first = cells[0]
    if isinstance(first, str):
        if first in '+-':
            sign = -1 if first == '-' else 1; cells = cells[1:]
    else:
        c0 = cell_code(first)
        if cx.branch(c0 == 45): sign = -1; cells = cells[1:]
        elif cx.branch(c0 == 43): cells = cells[1:]
    if not cells: raise ValueError('invalid literal (sign only)')
    codes = [cell_code(c) for c in cells]
    alldig = z3.And(*[z3.And(c >= 48, c <= 57) for c in codes])
    if not cx.branch(alldig):
        # could still be a valid literal with '_', '.', 'e' ... only if such characters are possible
        other = z3.Or(*[z3.Or(c == 95, c == 46, c == 101, c == 69, z3.And(c >= 9, c <= 13), c == 32,
                              c == 105, c == 73, c == 110, c == 78) for c in codes])
        if cx.branch(other):
            raise Unsupported('%s() of symbolic characters beyond [sign]digits' % want)
        raise ValueError('invalid literal for %s() (symbolic)' % want)
    val = z3.IntVal(0)
    for c in codes: val = val * 10 + (c - 48)
    val = val * sign
    return SInt(val) if want == 'int' else SReal(z3.ToReal(val))


# -- numbers printed with concrete punctuation and symbolic digit / sign cells
#    (C05: rows of listing tables).  Additive: only strings all of whose
#    symbolic cells are DChar cells over digits or over a subset of ' -+' come here.

_SIGN_CODES = frozenset([32, 43, 45])
pow10 = z3.Function('pow10', z3.IntSort(), z3.RealSort())

def pow10_term(E):
    """10**E for an integer term: exact rational when E is a numeral, else the
    uninterpreted pow10(E) (users add pow10_axioms over the range they need)."""
    E = z3.simplify(E) if not isinstance(E, builtins.int) else z3.IntVal(E)
    if z3.is_int_value(E):
        return z3.RealVal(Fraction(10) ** E.as_long())
    return pow10(E)

def pow10_axioms(lo, hi):
    """Ground facts pow10(k) == 10**k for lo <= k <= hi (hypotheses for an obligation)."""
    return [pow10(k) == z3.RealVal(Fraction(10) ** k) for k in range(lo, hi + 1)]

def _numcells_applicable(s):
    some = False
    for c in s.cells:
        if isinstance(c, str): continue
        if not isinstance(c, DChar): return False
        if not (c.dom <= _DIGIT_CODES or c.dom <= _SIGN_CODES): return False
        some = True
    return some

_DV_CACHE = {}

def _digits_value(cells):
    """integer value of a run of digit cells (concrete digits and digit DChars);
    memoised per process (the terms do not depend on the path)."""
    key = tuple(c if isinstance(c, str) else c.code.get_id() for c in cells)
    hit = _DV_CACHE.get(key)
    if hit is not None and builtins.len(hit[0]) == builtins.len(cells) and \
       all((x is y) or (isinstance(x, str) and x == y) or
           (not isinstance(x, str) and not isinstance(y, str) and x.code.eq(y.code)) for x, y in zip(hit[0], cells)):
        return hit[1]
    n = builtins.len(cells)
    const = 0
    terms = []
    for i, c in enumerate(cells):
        w = 10 ** (n - 1 - i)
        if isinstance(c, str): const += builtins.int(c) * w
        else:
            terms.append(c.code * w if w != 1 else c.code)
            const -= 48 * w
    if not terms: v = z3.IntVal(const)
    else:
        v = z3.Sum(*terms) if builtins.len(terms) > 1 else terms[0]
        if const != 0: v = v + const
    _DV_CACHE[key] = (list(cells), v)
    return v

def _num_skeleton_parse(cells, want):
    """cells: concrete characters and digit-class DChars only.  Acceptance is
    CPython's own float()/int() on the skeleton with every symbolic digit
    written as '0' (acceptance depends only on character classes).  Returns
    ('const', value) when nothing is symbolic, else
    ('num', sign, mantissa digit cells, number of fraction digits, exponent sign, exponent digit cells)."""
    skel = ''.join(c if isinstance(c, str) else '0' for c in cells)
    if want == 'int': builtins.int(skel)        # raises ValueError exactly when int() would
    else: builtins.float(skel)                  # raises ValueError exactly when float() would
    if all(isinstance(c, str) for c in cells):
        return ('const', builtins.int(skel) if want == 'int' else builtins.float(skel))
    i, j = 0, builtins.len(cells)
    while isinstance(cells[i], str) and cells[i].isspace(): i += 1
    while isinstance(cells[j - 1], str) and cells[j - 1].isspace(): j -= 1
    core = [c for c in cells[i:j] if not (isinstance(c, str) and c == '_')]
    sgn = 1
    if isinstance(core[0], str) and core[0] in '+-':
        sgn = -1 if core[0] == '-' else 1
        core = core[1:]
    def is_e(c): return isinstance(c, str) and c in 'eE'
    def is_pt(c): return isinstance(c, str) and c == '.'
    k = 0
    ip, fp, ex = [], [], []
    while k < builtins.len(core) and not is_pt(core[k]) and not is_e(core[k]):
        ip.append(core[k]); k += 1
    if k < builtins.len(core) and is_pt(core[k]):
        k += 1
        while k < builtins.len(core) and not is_e(core[k]):
            fp.append(core[k]); k += 1
    esgn = 1
    if k < builtins.len(core):      # exponent letter
        k += 1
        if isinstance(core[k], str) and core[k] in '+-':
            esgn = -1 if core[k] == '-' else 1
            k += 1
        ex = core[k:]
    for c in ip + fp + ex:
        if isinstance(c, str) and not c.isdigit():
            raise Unsupported('number skeleton %r not understood' % skel)
    return ('num', sgn, ip + fp, builtins.len(fp), esgn, ex)

def _same_cells(a, b):
    return builtins.len(a) == builtins.len(b) and all((x is y) or (isinstance(x, str) and x == y) for x, y in zip(a, b))

def _numcells_read(s, want):
    """float()/int() of a string whose punctuation is concrete and whose
    symbolic cells are digit cells and sign cells (DChar).  A sign cell is
    handled without forking when both of its values give an accepted number
    with the same digits (the usual leading sign position); otherwise the
    path forks on that cell.  Value: sign * digits * 10**exponent (exact when
    the exponent digits are concrete, pow10(E) otherwise)."""
    cx = sym.ctx()
    cells = list(s.cells)
    # memo (C06: history() reads the same cells once per call): a float read that did not fork
    # is repeated from its recorded parts - same term, fact re-asserted on the current path
    key = (want,) + tuple(c if isinstance(c, str) else builtins.id(c) for c in cells)
    hit = _NC_CACHE.get(key)
    if hit is not None and _same_cells(hit[0], cells):
        return _numval_again(hit[1])
    ndec = builtins.len(cx.decisions)
    cx.__dict__['_last_numval'] = None
    def attempt(cs):
        try: return _num_skeleton_parse(cs, want)
        except ValueError: return None
    def build(sgn, r):
        M = _digits_value(r[2])
        if r[5]:
            ev = _digits_value(r[5])
            E = (ev if r[4] > 0 else -ev) - r[3] if r[3] else (ev if r[4] > 0 else -ev)
        else:
            E = z3.IntVal(-r[3])
        return _numval(sgn, M, E, want)
    def rec(cs):
        S = [i for i, c in enumerate(cs) if isinstance(c, DChar) and not c.dom <= _DIGIT_CODES]
        if not S:
            r = _num_skeleton_parse(cs, want)
            if r[0] == 'const': return r[1]
            return build(r[1], r)
        if builtins.len(S) == 1:
            i = S[0]; c = cs[i]
            doms = sorted(c.dom)
            outs = [attempt(cs[:i] + [chr(v)] + cs[i + 1:]) for v in doms]
            if all(o is None for o in outs):
                raise ValueError('could not convert string to %s (symbolic sign cell)' % want)
            o0 = outs[0]
            if all(o is not None and o[0] == 'num' for o in outs) and \
               all(_same_cells(o[2], o0[2]) and o[3] == o0[3] and o[4] == o0[4] and _same_cells(o[5], o0[5]) for o in outs):
                sg = z3.IntVal(outs[-1][1])
                for v, o in list(zip(doms, outs))[-2::-1]:
                    sg = z3.If(c.code == v, z3.IntVal(o[1]), sg)
                return build(z3.simplify(sg), o0)
        i = S[0]; c = cs[i]
        doms = sorted(c.dom)
        for v in doms[:-1]:
            if cx.branch(c.code == v):
                return rec(cs[:i] + [chr(v)] + cs[i + 1:])
        return rec(cs[:i] + [chr(doms[-1])] + cs[i + 1:])
    val = rec(cells)
    last = cx.__dict__.get('_last_numval')
    if last is not None and last[0] is val and builtins.len(cx.decisions) == ndec:
        _NC_CACHE[key] = (cells, last)
    return val

_NC_CACHE = {}

def _numval_again(rec):
    val, term, fact, parts = rec
    cx = sym.ctx()
    if fact is not None:
        hit = cx.known.get(fact.get_id())
        if hit is None or not hit.eq(fact): cx.add(fact)
    cx.__dict__.setdefault('_num_parts', {})[term.get_id()] = parts
    return val

def _numval(sgn, M, E, want):
    if want == 'int':
        if not (z3.is_int_value(z3.simplify(E)) and z3.simplify(E).as_long() == 0):
            raise Unsupported('int() of a number with point/exponent')   # int() has already rejected these
        return SInt(z3.simplify(sgn * M))
    p = pow10_term(E)
    fact = None
    if not z3.is_rational_value(p):
        fact = p > 0
        hit = sym.ctx().known.get(fact.get_id())       # (C06: the same cell is read many times; assert the fact once per path)
        if hit is None or not hit.eq(fact): sym.ctx().add(fact)
    term = sgn * z3.ToReal(M) * p
    reg = sym.ctx().__dict__.setdefault('_num_parts', {})
    parts = (term, sgn if not isinstance(sgn, builtins.int) else z3.IntVal(sgn), M, E)
    reg[term.get_id()] = parts
    val = SReal(term)
    sym.ctx().__dict__['_last_numval'] = (val, term, fact, parts)
    return val


def num_parts(x):
    """(sign, digits, exponent) integer terms of a value produced by the
    numeric-cell reader on this context (value = sign*digits*10**exponent),
    or None for any other value."""
    e = x.e if isinstance(x, SReal) else x
    if not z3.is_expr(e): return None
    hit = getattr(sym.ctx(), '_num_parts', {}).get(e.get_id())
    if hit is not None and hit[0].eq(e): return hit[1:]
    return None


def sfloat(x=0.0):
    from .bstr import BStr
    if isinstance(x, BStr):
        from . import pyfloat_model
        return pyfloat_model.read_bstr(x, 'float')
    if isinstance(x, SReal): return x
    if isinstance(x, SInt): return SReal(z3.ToReal(x.e))
    if isinstance(x, SBool): return SReal(z3.If(x.e, z3.RealVal(1), z3.RealVal(0)))
    if isinstance(x, SStr):
        if any(isinstance(c, TokCell) for c in x.cells):
            return _token_read(x, 'float')
        if _numcells_applicable(x): return _numcells_read(x, 'float')
        return _charstr_read(x, 'float')
    return builtins.float(x)


def sint(x=0, *a):
    from .bstr import BStr
    if isinstance(x, BStr):
        from . import pyfloat_model
        return pyfloat_model.read_bstr(x, 'int')
    if isinstance(x, SInt): return x
    if isinstance(x, SBool): return SInt(z3.If(x.e, 1, 0))
    if isinstance(x, SReal):
        v = numeral_value(x.e)
        if v is not None: return builtins.int(v)
        # truncation toward zero
        e = x.e
        return SInt(z3.If(e >= 0, z3.ToInt(e), -z3.ToInt(-e)))
    if isinstance(x, SStr):
        if any(isinstance(c, TokCell) for c in x.cells):
            return _token_read(x, 'int')
        if _numcells_applicable(x): return _numcells_read(x, 'int')
        return _charstr_read(x, 'int')
    return builtins.int(x, *a)


def sstr(x=''):
    if isinstance(x, SStr): return x
    from .bstr import BStr
    if isinstance(x, BStr): return x
    if isinstance(x, SInt):
        return _mk(render_number('d', 0, 0, x))
    if isinstance(x, (SReal, SBool)):
        raise Unsupported('str() of symbolic %s' % type(x).__name__)
    return builtins.str(x)


def slen(x):
    from .bstr import BStr
    if isinstance(x, BStr): return x.slen()
    if isinstance(x, SStr):
        return builtins.len(x._resolved().cells)
    return builtins.len(x)


class IxStr(str):
    """A concrete str whose indexing by a symbolic integer yields a symbolic
    character (an ite-chain over the characters) instead of forking over the
    values of the index.  Everything else is the builtin str.  (C17: the
    alphabet argument `chars[k % n]` of mulgrids.int_to_chars.)"""
    def __getitem__(self, i):
        if isinstance(i, SInt) and numeral_value(i.e) is None:
            n = builtins.len(self)
            inr = z3.And(i.e >= 0, i.e < n)
            if n == 0 or sym.ctx().solve(z3.Not(inr))[0] != 'unsat':
                return str.__getitem__(self, i.concretize())
            # exact piecewise-linear form: one piece per run of consecutive code
            # points ('a'..'z' is the single piece 97 + i), ite over the pieces
            codes = [ord(str.__getitem__(self, k)) for k in range(n)]
            runs = []
            for k, cd in enumerate(codes):
                if runs and cd == runs[-1][1] + (k - runs[-1][0]): continue
                runs.append((k, cd))
            k0, c0 = runs[-1]
            e = i.e + (c0 - k0)
            for r in range(builtins.len(runs) - 2, -1, -1):
                k0, c0 = runs[r]
                e = z3.If(i.e < runs[r + 1][0], i.e + (c0 - k0), e)
            if builtins.len(runs) > 1 and builtins.len(set(codes)) == n:
                # implied lemma (conservative extension, removes no values): the characters
                # are distinct, so position is a function of the character; lets the solver
                # conclude i1 == i2 from chars[i1] == chars[i2] without splitting the ite
                inv = z3.Function('ixinv_' + '_'.join('%x' % cd for cd in codes), z3.IntSort(), z3.IntSort())
                sym.ctx().add(inv(e) == i.e)
            return SStr([SChar(e)])
        return str.__getitem__(self, i)
