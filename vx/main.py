"""Entry point: python3-vt -m vx.main Cnn [--tier quick|thorough] [--replay path]"""
import argparse
import importlib
import os
import sys

def main():
    ap = argparse.ArgumentParser()
    ap.add_argument('pid')
    ap.add_argument('--tier', default=os.environ.get('VERIF_TIER', 'quick'))
    ap.add_argument('--replay', default=None)
    a = ap.parse_args()
    here = os.path.dirname(os.path.dirname(os.path.abspath(__file__)))
    sys.path.insert(0, here)
    sys.setrecursionlimit(20000)
    from vx import report
    if a.replay:
        ok, out = report.run_replay(a.pid, os.path.abspath(a.replay))
        print(out)
        if ok:
            print('VIOLATION property=%s replay=%s' % (a.pid, a.replay))
            sys.exit(1)
        print('replay did not reproduce a violation')
        sys.exit(0)
    tier = a.tier if a.tier in ('quick', 'thorough') else 'quick'
    seed = int(os.environ.get('VERIF_SEED', '0') or 0)
    mod = importlib.import_module('harness.' + a.pid)
    rep = report.Report(a.pid, tier, seed)
    try:
        code = mod.run(tier, seed, rep)
    except BaseException as ex:
        import traceback
        traceback.print_exc()
        rep.harness_error('harness crashed: %s: %s' % (type(ex).__name__, ex))
        code = rep.finish(rule='(harness crashed)')
    sys.exit(code)

if __name__ == '__main__':
    main()
