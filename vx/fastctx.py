"""FastCtx: a drop-in Ctx with two sound query-saving devices.

Both only ever *skip* solver queries whose answer is already known; an
"infeasible" verdict still always comes from the solver, so no feasible path
can be lost:

1. decision memo (per path): a branch condition that is syntactically
   identical to one already decided on this path (or to its negation) gets
   the same answer without a query and without consuming a decision slot
   (the path condition only grows along a path, so the earlier answer is
   still implied).  Re-execution is deterministic, so the memo is rebuilt
   identically while a decision prefix is replayed.

2. witness: the last model that satisfies the whole path condition is kept as
   a name -> value table.  Evaluating a new branch condition under it tells
   which side is certainly feasible (that side needs no query); only the other
   side is sent to the solver.  Whenever a constraint is added that the
   witness does not satisfy, the witness is dropped and re-derived by one
   query over the full path condition.

Use: sym.explore(h, FastCtx(timeout_ms=...)).
"""
import z3
from . import sym
from .sym import Ctx, EngineAbort


class FastCtx(Ctx):

    def __init__(self, *a, **kw):
        self.use_witness = kw.pop('use_witness', True)
        self.use_memo = kw.pop('use_memo', True)
        self.retry_factor = kw.pop('retry_factor', 6)     # one retry of an 'unknown' obligation at this multiple of the time limit
        Ctx.__init__(self, *a, **kw)
        self.stats.update(memo_hits=0, witness_hits=0, witness_rebuilds=0)

    def reset(self, prefix):
        Ctx.reset(self, prefix)
        self._memo = {}          # ast hash -> list of (ast, decision)
        self._wit = None         # name -> (const ast, value ast)  or None
        self._consts = {}        # name -> const ast (collected from the pc)

    # -- memo ---------------------------------------------------------------
    def _memo_get(self, e):
        for a, d in self._memo.get(e.hash(), ()):
            if a.eq(e): return d
        return None

    def _memo_put(self, e, d):
        self._memo.setdefault(e.hash(), []).append((e, d))
        if z3.is_not(e):
            ne = e.arg(0)
            self._memo.setdefault(ne.hash(), []).append((ne, not d))

    # -- witness ------------------------------------------------------------
    def _wit_from_model(self, m, merge):
        if merge and self._wit is None: return     # nothing valid to merge into
        w = dict(self._wit) if merge else {}
        for d in m.decls():
            if d.arity() == 0:
                w[d.name()] = (d(), m[d])
        self._wit = w

    def _collect_consts(self, e, out):
        seen = set()
        stack = [e]
        while stack:
            t = stack.pop()
            i = t.get_id()
            if i in seen: continue
            seen.add(i)
            if z3.is_const(t):
                if t.decl().kind() == z3.Z3_OP_UNINTERPRETED: out[t.decl().name()] = t
            elif z3.is_app(t):
                if t.decl().kind() == z3.Z3_OP_UNINTERPRETED: out['(fn)'] = None
                stack.extend(t.children())
            else:
                out['(fn)'] = None      # quantifier etc.: do not evaluate
        return out

    def _wit_eval(self, e):
        """True / False under the witness, None if undetermined."""
        if self._wit is None: return None
        cs = self._collect_consts(e, {})
        if '(fn)' in cs: return None
        subs = []
        for name, const in cs.items():
            hit = self._wit.get(name)
            if hit is None:
                s = const.sort()
                if s.kind() == z3.Z3_REAL_SORT: v = z3.RealVal(0)
                elif s.kind() == z3.Z3_INT_SORT: v = z3.IntVal(0)
                elif s.kind() == z3.Z3_BOOL_SORT: v = z3.BoolVal(False)
                else: return None
                # an unconstrained-so-far variable: fix its value from now on
                self._wit[name] = (const, v)
                hit = (const, v)
            subs.append(hit)
        r = z3.simplify(z3.substitute(e, *subs)) if subs else z3.simplify(e)
        if z3.is_true(r): return True
        if z3.is_false(r): return False
        return None

    def _wit_rebuild(self):
        self.stats['witness_rebuilds'] += 1
        r, m = self.solve(z3.BoolVal(True), full=True)
        if r == 'sat': self._wit_from_model(m, merge=False)
        else: self._wit = None

    def add(self, e):
        n = len(self.pc)
        Ctx.add(self, e)
        if self._wit is not None and len(self.pc) > n:
            if self._wit_eval(self.pc[-1]) is not True:
                self._wit = None

    assume = add

    # -- obligations ---------------------------------------------------------
    def prove(self, formula, label, info=None):
        r = Ctx.prove(self, formula, label, info)
        if r == 'unknown' and self.retry_factor:
            # the machine may be heavily loaded: retry once with a longer limit
            self.unknowns.pop()
            self.stats['ob_unknown'] -= 1; self.stats['obligations'] -= 1
            old = self.timeout_ms
            self.timeout_ms = old * self.retry_factor
            try: r = Ctx.prove(self, formula, label, info)
            finally: self.timeout_ms = old
        return r

    # -- path-level failure -------------------------------------------------
    def refute_path(self, label, info=None):
        """Obligation `False` on this path (e.g. the code under test raised, or
        a concrete comparison failed): decided by satisfiability of the WHOLE
        path condition.  'sat' records a failure with a model of the full pc,
        'unsat' means the path was infeasible after all, 'unknown' is recorded
        as an unknown obligation."""
        self.stats['obligations'] += 1
        r, m = self.solve(z3.BoolVal(True), full=True)
        if r not in ('sat', 'unsat') and self.retry_factor:
            r, m = self.solve(z3.BoolVal(True), full=True, timeout_ms=self.timeout_ms * self.retry_factor)
        if r == 'sat':
            self.stats['ob_sat'] += 1
            self.failures.append(dict(label=label, info=info, model=m, formula=z3.BoolVal(False)))
        elif r == 'unsat':
            self.stats['ob_unsat'] += 1
        else:
            self.stats['ob_unknown'] += 1
            self.unknowns.append(dict(label=label, info=info))
        return r

    def holds(self, ok, label, info=None):
        """Concrete verdict `ok` on this path: True counts as a discharged
        obligation, False is decided by refute_path."""
        if ok:
            self.stats['obligations'] += 1
            self.stats['ob_unsat'] += 1
            self.stats['ob_trivial'] = self.stats.get('ob_trivial', 0) + 1
            return 'unsat'
        return self.refute_path(label, info)

    # -- branching ----------------------------------------------------------
    def branch(self, e):
        e = z3.simplify(e)
        if z3.is_true(e): return True
        if z3.is_false(e): return False
        if self.use_memo:
            d = self._memo_get(e)
            if d is not None:
                self.stats['memo_hits'] += 1
                return d
        self.stats['branches'] += 1
        k = len(self.decisions)
        if k >= self.max_depth:
            self.aborted = 'max_depth'
            raise EngineAbort('max_depth %d exceeded' % self.max_depth)
        if k < len(self.prefix):
            d, forced = self.prefix[k]
            self.decisions.append((d, forced))
            if not forced:
                self.add(e if d else z3.Not(e))
            if self.use_memo: self._memo_put(e, d)
            return d
        ne = z3.Not(e)
        known = None
        if self.use_witness:
            if self._wit is None: self._wit_rebuild()
            known = self._wit_eval(e)
        if known is True:
            self.stats['witness_hits'] += 1
            ft = True
            r, m = self.solve(ne)
            ff = r != 'unsat'
            mf = m if r == 'sat' else None
            mt = None
        elif known is False:
            self.stats['witness_hits'] += 1
            ff = True
            r, m = self.solve(e)
            ft = r != 'unsat'
            mt = m if r == 'sat' else None
            mf = None
        else:
            r, mt = self.solve(e)
            ft = r != 'unsat'
            ff, mf = True, None
            if ft:
                r2, mf = self.solve(ne)
                ff = r2 != 'unsat'
        if not ft:
            self.decisions.append((False, True))
            if self.use_memo: self._memo_put(e, False)
            return False
        if not ff:
            self.decisions.append((True, True))
            if self.use_memo: self._memo_put(e, True)
            return True
        self.stats['forks'] += 1
        self.new_pending.append(self.decisions + [(False, False)])
        self.decisions.append((True, False))
        if known is not True:
            # witness must follow the side we take
            if mt is not None and self.use_witness: self._wit_from_model(mt, merge=True)
            else: self._wit = None
        Ctx.add(self, e)
        if self._wit is not None and self._wit_eval(e) is not True: self._wit = None
        if self.use_memo: self._memo_put(e, True)
        return True
