"""Fast engine self-test (a few seconds): python3-vt -m vx.selftest"""
import sys, os, time
sys.path.insert(0, os.path.dirname(os.path.dirname(os.path.abspath(__file__))))
import numpy as np
import z3
from vx import sym, strs, loader, vfs as vfsmod
from vx.sym import explore, Ctx, SReal, SInt, SBool

def t_core():
    def h(c):
        x = c.real('x', 0, strict_lo=True); y = c.real('y', 0, strict_lo=True)
        n = c.int('n', 1, 3)
        a = np.array([x, y, 2.5], dtype=object)
        b = a * 2 + np.float64(1.5) * x
        k = 0
        for i in range(n): k += 1
        d = np.sqrt(np.array([x * x + y * y], dtype=object))[0]
        m = x if x > y else y
        assert c.prove(d >= m, 'norm>=max') == 'unsat'
        assert c.prove(d > x + y, 'false claim') == 'sat'
        return 'k=%d' % k
    r = explore(h)
    assert r['exhausted'] and len(r['paths']) == 6, len(r['paths'])
    assert sorted(p.outcome for p in r['paths']) == ['k=1', 'k=1', 'k=2', 'k=2', 'k=3', 'k=3']

def t_fromgeo():
    ld = loader.load(['t2grids'])
    def h(c):
        dx = [c.real('dx%d' % i, 0, strict_lo=True) for i in range(2)]
        dy = [c.real('dy0', 0, strict_lo=True)]
        dz = [c.real('dz%d' % i, 0, strict_lo=True) for i in range(2)]
        geo = ld.mulgrids.mulgrid().rectangular(dx, dy, dz, atmos_type=2)
        grid = ld.t2grids.t2grid().fromgeo(geo)
        tot = sum(b.volume for b in grid.blocklist)
        assert c.prove(tot == (dx[0] + dx[1]) * dy[0] * (dz[0] + dz[1]), 'total volume') == 'unsat'
        assert c.prove(tot == (dx[0] + dx[1]) * dy[0] * dz[0], 'wrong volume') == 'sat'
    r = explore(h)
    assert r['exhausted'] and len(r['paths']) == 1
    assert any('fromgeo' in f for f in r['functions'])

def t_strings():
    fs = vfsmod.VFS()
    ld = loader.load(['fixed_format_file'], vfs=fs)
    F = ld.fixed_format_file
    spec = {'rec': [['a', 'b', 'n', 's'], ['10.3e', '10.2f', '5d', '5s']]}
    def h(c):
        p = F.fixed_format_file('f', 'w', spec)
        a = c.real('a'); b = c.real('b', -1000, 1000); n = c.int('n', -999, 9999)
        nm = strs.SStr([strs.SChar(z3.Int('ch%d' % k)) for k in range(5)])
        for ch in nm.cells: c.add(z3.And(ch.code >= 65, ch.code <= 90))
        c.add(z3.And(a.e > 0, a.e < 1000))
        p.write_values([a, b, n, nm], 'rec')
        p.close()
        q = F.fixed_format_file('f', 'r', spec)
        vals = q.read_values('rec')
        assert c.prove(vals[0].e == strs.rounded_value('e', 3, a.e), 'a') == 'unsat'
        assert c.prove(vals[1].e == strs.rounded_value('f', 2, b.e), 'b') == 'unsat'
        assert c.prove(vals[2] == n, 'n') == 'unsat'
        assert c.prove(vals[3] == nm, 's') == 'unsat'
        assert c.prove(vals[0] == a, 'exact a') == 'sat'
    r = explore(h)
    assert r['exhausted'] and all(p.outcome == 'ok' for p in r['paths']), [p.outcome for p in r['paths']]

def t_names():
    ld = loader.load(['t2grids'])
    T = ld.t2grids
    def h(c):
        def name(b):
            cells = [strs.SChar(z3.Int('%s%d' % (b, k))) for k in range(5)]
            for ch in cells: c.add(z3.And(ch.code >= 97, ch.code <= 122))
            return strs.SStr(cells)
        g = T.t2grid()
        a, b = name('a'), name('b')
        c.add(sym.snot(a == b).e)
        g.add_block(T.t2block(a, 1.0, g.rocktypelist[0] if g.rocktypelist else None))
        g.add_block(T.t2block(b, 2.0, None))
        q = name('q')
        if q in g.block: return 'hit'
        return 'miss'
    r = explore(h)
    assert sorted(p.outcome for p in r['paths']) == ['hit', 'hit', 'miss'], [p.outcome for p in r['paths']]

def main():
    t0 = time.time()
    for f in (t_core, t_fromgeo, t_strings, t_names):
        t = time.time(); f(); print('%-12s ok %.2fs' % (f.__name__, time.time() - t))
    print('selftest ok %.1fs' % (time.time() - t0))

if __name__ == '__main__':
    main()
