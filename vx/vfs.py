"""In-memory text files holding cell-strings; installed as `open` (and
os.path.exists) in the reloaded modules."""
import builtins
import types
from . import strs
from .strs import SStr


class EndlessRead(Exception):
    """the code under test keeps reading at the end of a virtual file"""


class VFS(object):
    def __init__(self):
        self.files = {}

    def open(self, name, mode='r', *a, **kw):
        if 'b' in mode:
            raise strs.Unsupported('binary file in virtual FS: %r' % name)
        if 'w' in mode:
            self.files[name] = []
            return VFile(self, name, 'w')
        if name not in self.files:
            raise FileNotFoundError(name)
        return VFile(self, name, 'r')

    def exists(self, name):
        return name in self.files

    def lines(self, name):
        return self.files[name]


class VFile(object):
    def __init__(self, fs, name, mode):
        self.fs, self.name, self.mode = fs, name, mode
        self.pos = 0
        self.partial = []
        self.closed = False

    # -- writing
    def write(self, s):
        cells = list(s) if isinstance(s, str) else list(s._resolved().cells)
        for c in cells:
            self.partial.append(c)
            if c == '\n':
                self.fs.files[self.name].append(strs._mk(self.partial))
                self.partial = []

    def close(self):
        if self.partial:
            self.fs.files[self.name].append(strs._mk(self.partial))
            self.partial = []
        self.closed = True

    # -- reading
    def readline(self):
        L = self.fs.files[self.name]
        if self.pos >= len(L):
            # a reader that keeps asking at the end of the file is looping for ever: after a
            # generous number of end-of-file answers the run is ended with an exception
            # (harnesses report it as a non-termination failure, replayed under a time limit)
            self.eof_reads = getattr(self, 'eof_reads', 0) + 1
            if self.eof_reads > 2000: raise EndlessRead('%s: end of file returned %d times' % (self.name, self.eof_reads))
            return ''
        r = L[self.pos]
        self.pos += 1
        return r

    def readlines(self):
        out = []
        while True:
            l = self.readline()
            if l == '' and self.pos >= len(self.fs.files[self.name]): break
            out.append(l)
        return out

    def __iter__(self):
        while self.pos < len(self.fs.files[self.name]):
            yield self.readline()

    def tell(self): return self.pos
    def seek(self, pos, whence=0):
        if whence == 0: self.pos = pos
        elif whence == 1: self.pos += pos
        else: self.pos = len(self.fs.files[self.name]) + pos
    def read(self):
        raise strs.Unsupported('VFile.read')
    def __enter__(self): return self
    def __exit__(self, *a): self.close()


def make_ospath_shim(modname, fs):
    import os.path as _p
    m = types.ModuleType(modname)
    for k in dir(_p):
        if not k.startswith('_'): setattr(m, k, getattr(_p, k))
    m.exists = fs.exists
    m.isfile = fs.exists
    return m
