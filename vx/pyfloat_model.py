"""Acceptance models (DFAs) of CPython's float()/int() on str, and of the
Fortran numeric output language; used on bounded symbolic strings (BStr).
One table serves both the z3 encoding and the concrete simulation that
validates it against CPython."""
import builtins
import z3
from . import sym
from .bstr import BStr, DFA, WS_CODES, is_ws, zI
from .sym import Unsupported


def _cls(name, codes=None, rng=None):
    if codes is not None:
        cs = tuple(codes)
        return (name, lambda o, cs=cs: o in cs, lambda x, cs=cs: z3.Or(*[x == v for v in cs]))
    lo, hi = rng
    return (name, lambda o: lo <= o <= hi, lambda x: z3.And(x >= lo, x <= hi))


def _letter(ch):
    return _cls(ch, codes=(ord(ch), ord(ch.upper())))

CLASSES = [
    _cls('ws', codes=WS_CODES), _cls('blank', codes=(32,)),
    _cls('digit', rng=(48, 57)), _cls('sign', codes=(43, 45)),
    _cls('plus', codes=(43,)), _cls('minus', codes=(45,)),
    _cls('dot', codes=(46,)), _cls('us', codes=(95,)),
    _letter('e'), _letter('d'), _letter('i'), _letter('n'), _letter('f'), _letter('a'),
    _letter('t'), _letter('y'),
    _cls('expletter', codes=(ord('e'), ord('E'), ord('d'), ord('D'))),
]

# CPython float(str): optional whitespace, sign, (inf|infinity|nan|decimal), whitespace
PYFLOAT = DFA(CLASSES, {
    0: [('ws', 0), ('sign', 1), ('digit', 2), ('dot', 3), ('i', 10), ('n', 20)],
    1: [('digit', 2), ('dot', 3), ('i', 10), ('n', 20)],
    2: [('digit', 2), ('us', 4), ('dot', 5), ('e', 7), ('ws', 30)],
    4: [('digit', 2)],
    3: [('digit', 6)],
    5: [('digit', 6), ('e', 7), ('ws', 30)],
    6: [('digit', 6), ('us', 61), ('e', 7), ('ws', 30)],
    61: [('digit', 6)],
    7: [('sign', 8), ('digit', 9)],
    8: [('digit', 9)],
    9: [('digit', 9), ('us', 91), ('ws', 30)],
    91: [('digit', 9)],
    10: [('n', 11)], 11: [('f', 12)], 12: [('i', 13), ('ws', 30)], 13: [('n', 14)],
    14: [('i', 15)], 15: [('t', 16)], 16: [('y', 17)], 17: [('ws', 30)],
    20: [('a', 21)], 21: [('n', 22)], 22: [('ws', 30)],
    30: [('ws', 30)],
}, 0, [2, 5, 6, 9, 12, 17, 22, 30])   # every transition into 30 (trailing whitespace) comes from an accepting state

PYINT = DFA(CLASSES, {
    0: [('ws', 0), ('sign', 1), ('digit', 2)],
    1: [('digit', 2)],
    2: [('digit', 2), ('us', 3), ('ws', 4)],
    3: [('digit', 2)],
    4: [('ws', 4)],
}, 0, [2, 4])

# Fortran numeric output language for reals (blanks may occur anywhere):
# [sign] digits [. digits] | [sign] . digits, then optionally an exponent:
# letter (E,e,D,d) [sign] digits   or   sign digits   (letter dropped)
FORTRAN_REAL = DFA(CLASSES, {
    0: [('blank', 0), ('sign', 1), ('digit', 2), ('dot', 3)],
    1: [('blank', 1), ('digit', 2), ('dot', 3)],
    2: [('blank', 2), ('digit', 2), ('dot', 5), ('expletter', 7), ('sign', 8)],
    3: [('blank', 3), ('digit', 6)],
    5: [('blank', 5), ('digit', 6), ('expletter', 7), ('sign', 8)],
    6: [('blank', 6), ('digit', 6), ('expletter', 7), ('sign', 8)],
    7: [('blank', 7), ('sign', 8), ('digit', 9)],
    8: [('blank', 8), ('digit', 9)],
    9: [('blank', 9), ('digit', 9)],
}, 0, [2, 5, 6, 9])

FORTRAN_INT = DFA(CLASSES, {
    0: [('blank', 0), ('sign', 1), ('digit', 2)],
    1: [('blank', 1), ('digit', 2)],
    2: [('blank', 2), ('digit', 2)],
}, 0, [2])

# characters that can occur in some text accepted by float()/int() or written
# by Fortran for a number; anything else is "impossible"
POSSIBLE = set('0123456789+-.eEdD_ \t\n\x0b\x0c\r') | set('infatyINFATY')

def impossible_char(x):
    return z3.And(x != 0, z3.Not(z3.Or(*[x == ord(ch) for ch in sorted(POSSIBLE)])))


class ParsedNumber(object):
    """Result of float()/int() of a bounded symbolic string: the text that
    was accepted (its value is whatever CPython gives for that text)."""
    def __init__(self, text, kind):
        self.text, self.kind = text, kind
    def __repr__(self): return 'ParsedNumber(%s)' % self.kind


def read_bstr(b, want):
    cx = sym.ctx()
    dfa = PYFLOAT if want == 'float' else PYINT
    acc = dfa.run_symbolic(b)
    if cx.branch(acc):
        return ParsedNumber(b, want)
    raise ValueError('could not convert string to %s (symbolic)' % want)


def read_cells(s, want):
    """float()/int() of an SStr whose cells are characters (no tokens)."""
    from . import strs
    cells = s._resolved().cells
    codes = [strs.cell_code(c) for c in cells]
    b = BStr(codes, zI(builtins.len(codes)))
    return read_bstr(b, want)


def validate_against_cpython(maxlen=5, alphabet='1+-.eEd _inf*\t'):
    """Differential validation of the two CPython acceptance DFAs.
    Returns (number of strings compared, list of disagreements)."""
    import itertools
    n = 0
    bad = []
    def acc(fn, t):
        try: fn(t); return True
        except ValueError: return False
    extra = ['infinity', 'INFINITY', '+Infinity ', ' -inf', 'nan', ' NaN ', '+nan', 'infinit', 'infinityy',
             '1_0', '1__0', '_1', '1_', '1_.5', '1._5', '1.5_0', '1e1_0', '1e_1', '.', '.e1', '1.e1', '.5e-3',
             '1e+', '1e', ' 1.5e+02 ', '1 .5', '1.5d2', '0x10', '1,5', '--1', '+-1', '1e5.', '\n12\r', '\x0b3\x0c']
    for L in range(maxlen + 1):
        for tup in itertools.product(alphabet, repeat=L):
            t = ''.join(tup)
            n += 1
            if PYFLOAT.run_concrete(t) != acc(float, t): bad.append(('float', t))
            if PYINT.run_concrete(t) != acc(int, t): bad.append(('int', t))
    for t in extra:
        n += 1
        if PYFLOAT.run_concrete(t) != acc(float, t): bad.append(('float', t))
        if PYINT.run_concrete(t) != acc(int, t): bad.append(('int', t))
    return n, bad
