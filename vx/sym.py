"""symx core: symbolic proxies over z3 and a re-execution path explorer.

The code under analysis is ordinary Python (PyTOUGH's modules reloaded from
/repo by vx.loader).  Values are proxies (SReal, SInt, SBool) carrying z3
terms; `bool()` of a symbolic condition is the fork point.  Paths are explored
depth first by deterministic re-execution with a recorded decision prefix.
"""
import time
import itertools
from fractions import Fraction
import z3

# ---------------------------------------------------------------------------

class EngineAbort(BaseException):
    """Raised to abandon the current path (limit reached / engine problem).
    BaseException so that `except Exception` in code under test lets it pass;
    bare `except:` still swallows it, therefore Ctx.aborted is also set."""

class Unsupported(EngineAbort):
    pass


_EMPTY = frozenset()
import os as _os0
_FORKTRACE = bool(_os0.environ.get('VX_FORKTRACE'))


class Ctx(object):
    """One exploration context (one harness run = many paths)."""

    def __init__(self, timeout_ms=20000, max_depth=4000, label='', logic=None, incremental=False):
        self.logic = logic      # e.g. 'QF_BV' for pure bit-vector harnesses
        # incremental: one solver per path with push/pop instead of a fresh solver on an
        # independence slice per query (good for large linear/UF path conditions; do not
        # use with nonlinear arithmetic, where the incremental core answers unknown)
        self.incremental = incremental
        self.second_every = 0     # re-decide every n-th query with /usr/bin/z3 (0 = off)
        self.second_offset = 0
        self._second_count = 0
        self.timeout_ms = timeout_ms
        self.max_depth = max_depth
        self.label = label
        self.stats = dict(queries=0, sat=0, unsat=0, unknown=0, solver_s=0.0,
                          forks=0, branches=0, paths=0, obligations=0,
                          ob_unsat=0, ob_sat=0, ob_unknown=0)
        self._vars_cache = {}   # ast id -> (ast kept alive, frozenset of var names)
        self.stubs_hit = set()
        self.fork_sites = []
        self.reset([])

    # -- per-path state ----------------------------------------------------
    def reset(self, prefix):
        self.pc = []            # z3 BoolRef list: decisions + definitions + assumptions
        self.pc_vars = []       # parallel list of var-name sets
        self.var_index = {}     # var name -> indices of pc entries mentioning it
        self.ground = []
        self.prefix = list(prefix)
        self.decisions = []
        self.new_pending = []
        self.aborted = None
        self.counter = itertools.count()
        self.sqrt_cache = {}
        self.path_notes = []
        self.failures = []      # obligations found sat on this path
        self.unknowns = []
        self.misaligned = False
        self.known = {}
        self.isolver = None
        if self.incremental:
            self.isolver = z3.SolverFor(self.logic) if self.logic else z3.Solver()
            self.isolver.set('timeout', self.timeout_ms)

    # -- symbols -----------------------------------------------------------
    def fresh_name(self, base):
        return '%s!%d' % (base, next(self.counter))

    def real(self, name, lo=None, hi=None, strict_lo=False):
        v = z3.Real(name)
        if lo is not None:
            self.assume(v > lift_real(lo) if strict_lo else v >= lift_real(lo))
        if hi is not None:
            self.assume(v <= lift_real(hi))
        return SReal(v)

    def int(self, name, lo=None, hi=None):
        v = z3.Int(name)
        if lo is not None: self.assume(v >= lo)
        if hi is not None: self.assume(v <= hi)
        r = SInt(v)
        r.lo, r.hi = lo, hi
        return r

    def bool(self, name):
        return SBool(z3.Bool(name))

    # -- path condition ----------------------------------------------------
    def vars_of(self, e):
        """frozenset of the names of the free constants of e (memoised on every
        sub-term; the cache keeps the ASTs alive so that ids stay valid)."""
        cache = self._vars_cache
        hit = cache.get(e.get_id())
        if hit is not None:
            return hit[1]
        # iterative post-order
        stack = [(e, None)]
        while stack:
            t, kids = stack.pop()
            tid = t.get_id()
            if tid in cache: continue
            if kids is None:
                if z3.is_app(t):
                    if t.num_args() == 0:
                        if t.decl().kind() == z3.Z3_OP_UNINTERPRETED:
                            cache[tid] = (t, frozenset([t.decl().name()]))
                        else:
                            cache[tid] = (t, _EMPTY)
                        continue
                    kids = t.children()
                    stack.append((t, kids))
                    for k in kids:
                        if k.get_id() not in cache: stack.append((k, None))
                else:
                    cache[tid] = (t, _EMPTY)   # quantifiers / vars: not used
            else:
                acc = None
                for k in kids:
                    ks = cache[k.get_id()][1]
                    if not ks: continue
                    if acc is None: acc = ks
                    elif not (ks <= acc): acc = acc | ks
                cache[tid] = (t, acc if acc is not None else _EMPTY)
        return cache[e.get_id()][1]

    def add(self, e):
        """Add a constraint to the path condition (no feasibility check)."""
        if isinstance(e, SBool): e = e.e
        if isinstance(e, bool):
            if not e:
                self.pc.append(z3.BoolVal(False)); self.pc_vars.append(frozenset()); self.ground.append(len(self.pc) - 1)
            return
        self.pc.append(e)
        if self.isolver is not None:
            self.isolver.add(e)
            self.pc_vars.append(frozenset())
        else:
            vs = self.vars_of(e)
            self.pc_vars.append(vs)
            i = len(self.pc) - 1
            if not vs: self.ground.append(i)
            for v in vs:
                l = self.var_index.get(v)
                if l is None: self.var_index[v] = [i]
                else: l.append(i)
        # remember asserted facts (also in simplified form) so that a later
        # branch on exactly this condition needs no solver call
        self.known[e.get_id()] = e
        es = z3.simplify(e)
        self.known[es.get_id()] = es

    assume = add

    def slice_for(self, e):
        """Constraints of the pc transitively sharing variables with e
        (plus the ground ones), found through a variable -> constraint index."""
        idx = self.var_index
        seen_vars = set()
        taken = set(self.ground)
        work = list(self.vars_of(e))
        while work:
            v = work.pop()
            if v in seen_vars: continue
            seen_vars.add(v)
            for i in idx.get(v, ()):
                if i not in taken:
                    taken.add(i)
                    for w in self.pc_vars[i]:
                        if w not in seen_vars: work.append(w)
        return [self.pc[i] for i in sorted(taken)]

    def solve(self, extra, full=False, timeout_ms=None):
        """check-sat of (slice of) pc plus extra; returns ('sat', model) etc."""
        if self.isolver is not None:
            s = self.isolver
            s.push()
            try:
                s.add(extra)
                t0 = time.time()
                r = s.check()
                dt = time.time() - t0
                self.stats['queries'] += 1
                self.stats['solver_s'] += dt
                rs = str(r)
                self.stats[rs] = self.stats.get(rs, 0) + 1
                return (rs, s.model()) if rs == 'sat' else (rs, None)
            finally:
                s.pop()
        cons = self.pc if full else self.slice_for(extra)
        total = timeout_ms or self.timeout_ms
        # retry ladder: z3's search is sensitive to declaration order / seeds, and a query that
        # normally takes milliseconds occasionally diverges; a short first attempt, then the same
        # query with another seed and the assertions in reverse order, then the full budget.
        # The verdict is whatever attempt answers first; 'unknown' only if every attempt is unknown.
        ladder = [total] if total <= 20000 else [max(5000, total // 12), max(10000, total // 4), total]
        t0 = time.time()
        for attempt, tmo in enumerate(ladder):
            s = z3.SolverFor(self.logic) if self.logic else z3.Solver()
            s.set('timeout', int(tmo))
            if attempt:
                try: s.set('random_seed', attempt)
                except z3.Z3Exception: pass
            for c in (cons if attempt != 1 else list(reversed(cons))): s.add(c)
            s.add(extra)
            r = s.check()
            if str(r) != 'unknown': break
            if attempt + 1 < len(ladder): self.stats['retries'] = self.stats.get('retries', 0) + 1
        dt = time.time() - t0
        self.stats['queries'] += 1
        self.stats['solver_s'] += dt
        rs = str(r)
        self.stats[rs] = self.stats.get(rs, 0) + 1
        if self.second_every and rs in ('sat', 'unsat') and not full:
            self._second_count += 1
            if (self._second_count + self.second_offset) % self.second_every == 0:
                self._second_solver(s, rs)
        if rs == 'sat':
            return 'sat', s.model()
        return rs, None

    def _second_solver(self, solver, first):
        """Re-decide the query with the z3 4.8.12 binary (a different build and
        version of the solver); a disagreement or an (error line makes the run
        inconclusive."""
        import subprocess, tempfile, os as _os
        txt = solver.to_smt2()
        fd, path = tempfile.mkstemp(suffix='.smt2')
        try:
            with _os.fdopen(fd, 'w') as fh: fh.write(txt)
            try:
                p = subprocess.run(['/usr/bin/z3', '-T:20', path], capture_output=True, text=True, timeout=40)
                out = p.stdout.strip().split('\n')[0] if p.stdout.strip() else ''
                err = '(error' in p.stdout
            except Exception as ex:
                out, err = 'failed: %s' % ex, False
        finally:
            try: _os.remove(path)
            except OSError: pass
        self.stats['second_solver_queries'] = self.stats.get('second_solver_queries', 0) + 1
        if err:
            self.stats['second_solver_errors'] = self.stats.get('second_solver_errors', 0) + 1
            self.unknowns.append(dict(label='second solver reported an (error line', info=None))
        elif out in ('sat', 'unsat'):
            if out == first:
                self.stats['second_solver_agree'] = self.stats.get('second_solver_agree', 0) + 1
            else:
                self.unknowns.append(dict(label='second solver disagrees (%s vs %s)' % (first, out), info=None))
        else:
            self.stats['second_solver_inconclusive'] = self.stats.get('second_solver_inconclusive', 0) + 1

    def feasible(self, e):
        r, _ = self.solve(e)
        return r != 'unsat', r

    # -- branching ---------------------------------------------------------
    def branch(self, e):
        e = z3.simplify(e)
        if z3.is_true(e): return True
        if z3.is_false(e): return False
        self.stats['branches'] += 1
        k = len(self.decisions)
        if k >= self.max_depth:
            self.aborted = 'max_depth'
            raise EngineAbort('max_depth %d exceeded' % self.max_depth)
        if k < len(self.prefix):
            d, forced = self.prefix[k]
            self.decisions.append((d, forced))
            if not forced:
                self.add(e if d else z3.Not(e))
            return d
        ne = z3.Not(e)
        hit = self.known.get(e.get_id())
        if hit is not None and hit.eq(e):
            self.decisions.append((True, True)); self.stats['known_hits'] = self.stats.get('known_hits', 0) + 1
            return True
        if z3.is_not(e):
            inner = e.arg(0)
            hit = self.known.get(inner.get_id())
            if hit is not None and hit.eq(inner):
                self.decisions.append((False, True)); self.stats['known_hits'] = self.stats.get('known_hits', 0) + 1
                return False
        ft, rt = self.feasible(e)
        if not ft:
            self.decisions.append((False, True))
            return False
        ff, rf = self.feasible(ne)
        if not ff:
            self.decisions.append((True, True))
            return True
        # both feasible (or unknown)
        self.stats['forks'] += 1
        if _FORKTRACE:
            import traceback
            fr = [f for f in traceback.extract_stack() if '/repo/' in f.filename or '/harness/' in f.filename][-3:]
            self.fork_sites.append(' <- '.join('%s:%d' % (f.filename.split('/')[-1], f.lineno) for f in reversed(fr)) + '  ' + str(e)[:100].replace('\n', ' '))
        self.new_pending.append(self.decisions + [(False, False)])
        self.decisions.append((True, False))
        self.add(e)
        return True

    # -- obligations -------------------------------------------------------
    def prove(self, formula, label, info=None):
        """Obligation: on this path, formula holds for all values.
        Returns 'unsat' (holds), 'sat' (counterexample recorded), 'unknown'."""
        if isinstance(formula, SBool): formula = formula.e
        if isinstance(formula, bool): formula = z3.BoolVal(formula)
        self.stats['obligations'] += 1
        neg = z3.simplify(z3.Not(formula))
        if z3.is_false(neg):
            self.stats['ob_unsat'] += 1
            self.stats['ob_trivial'] = self.stats.get('ob_trivial', 0) + 1
            return 'unsat'
        r, m = self.solve(neg)
        if r == 'sat':
            # full model for replay (a convenience: short time limit; the slice model is kept otherwise)
            r2, m2 = self.solve(neg, full=True, timeout_ms=min(self.timeout_ms, 15000))
            if r2 == 'sat': m = m2
            # a model must really falsify the obligation (seen under heavy machine
            # load: a `sat` answer whose model does not): evaluate, re-ask once, and
            # otherwise count the obligation as undecided rather than as a counterexample
            try:
                bad = z3.is_false(m.eval(neg, model_completion=True))
            except Exception:
                bad = False
            if bad:
                self.stats['invalid_models_rechecked'] = self.stats.get('invalid_models_rechecked', 0) + 1
                r3, m3 = self.solve(neg, full=True)
                if r3 == 'unsat': r = 'unsat'
                elif r3 == 'sat' and not z3.is_false(m3.eval(neg, model_completion=True)): m = m3
                else: r = 'unknown'
        if r == 'sat':
            self.stats['ob_sat'] += 1
            self.failures.append(dict(label=label, info=info, model=m,
                                      formula=formula))
        elif r == 'unsat':
            self.stats['ob_unsat'] += 1
        else:
            self.stats['ob_unknown'] += 1
            self.unknowns.append(dict(label=label, info=info))
        return r

    def prove_all(self, items):
        """items: list of (formula, label).  One query for the conjunction; only
        if that is not unsat are the obligations examined one by one.
        Returns list of (label, result) for the non-unsat ones."""
        forms = []
        for f, label in items:
            if isinstance(f, SBool): f = f.e
            if isinstance(f, bool): f = z3.BoolVal(f)
            forms.append((f, label))
        if not forms: return []
        conj = z3.simplify(z3.And(*[f for f, _ in forms]))
        if z3.is_true(conj):
            n = len(forms)
            self.stats['obligations'] += n; self.stats['ob_unsat'] += n
            self.stats['ob_trivial'] = self.stats.get('ob_trivial', 0) + n
            return []
        if not z3.is_false(conj):
            r, m = self.solve(z3.Not(conj))
            if r == 'unsat':
                n = len(forms)
                self.stats['obligations'] += n; self.stats['ob_unsat'] += n
                self.stats['ob_batched'] = self.stats.get('ob_batched', 0) + n
                return []
        bad = []
        for f, label in forms:
            r = self.prove(f, label)
            if r != 'unsat': bad.append((label, r))
        return bad

    def reachable(self):
        """Reachability witness: is the current pc satisfiable as a whole?"""
        r, m = self.solve(z3.BoolVal(True), full=True)
        return r, m

    def note(self, s):
        self.path_notes.append(s)


_ctx = None

def ctx():
    return _ctx

def set_ctx(c):
    global _ctx
    _ctx = c


# ---------------------------------------------------------------------------
# lifting

def lift_real(x):
    """Python / numpy number -> z3 Real numeral (exact)."""
    if isinstance(x, SReal) or isinstance(x, SInt):
        return z3.ToReal(x.e) if z3.is_int(x.e) else x.e
    if isinstance(x, z3.ExprRef):
        return z3.ToReal(x) if z3.is_int(x) else x
    if isinstance(x, bool):
        return z3.RealVal(int(x))
    if isinstance(x, int):
        return z3.RealVal(x)
    if isinstance(x, Fraction):
        return z3.RealVal(x)
    import numpy as _np
    if isinstance(x, (_np.integer,)):
        return z3.RealVal(int(x))
    if isinstance(x, (float, _np.floating)):
        f = float(x)
        if f != f or f in (float('inf'), float('-inf')):
            raise Unsupported('non-finite float met symbolic value: %r' % f)
        fr = Fraction(f)
        return z3.RealVal(fr)
    raise TypeError('cannot lift %r to Real' % (x,))

def lift_int(x):
    if isinstance(x, SInt): return x.e
    if isinstance(x, bool): return z3.IntVal(int(x))
    if isinstance(x, int): return z3.IntVal(x)
    import numpy as _np
    if isinstance(x, _np.integer): return z3.IntVal(int(x))
    raise TypeError('cannot lift %r to Int' % (x,))

def is_sym(x):
    return isinstance(x, (SReal, SInt, SBool))

def _is_number(x):
    import numpy as _np
    return isinstance(x, (int, float, Fraction, _np.integer, _np.floating)) \
        and not isinstance(x, bool) or isinstance(x, bool)

def _is_intlike(x):
    import numpy as _np
    return isinstance(x, (int, _np.integer)) or isinstance(x, SInt)


def numeral_value(e):
    """If z3 term e simplifies to a numeral return Fraction/int else None."""
    e = z3.simplify(e)
    if z3.is_int_value(e): return e.as_long()
    if z3.is_rational_value(e):
        return Fraction(e.numerator_as_long(), e.denominator_as_long())
    return None


# ---------------------------------------------------------------------------

class SBool(object):
    __slots__ = ('e',)

    def __init__(self, e):
        self.e = e

    def __bool__(self):
        return _ctx.branch(self.e)

    def __hash__(self): return 0

    @staticmethod
    def of(x):
        if isinstance(x, SBool): return x.e
        if isinstance(x, bool): return z3.BoolVal(x)
        import numpy as _np
        if isinstance(x, _np.bool_): return z3.BoolVal(bool(x))
        return z3.BoolVal(bool(x))

    def __and__(self, o): return SBool(z3.And(self.e, SBool.of(o)))
    __rand__ = __and__
    def __or__(self, o): return SBool(z3.Or(self.e, SBool.of(o)))
    __ror__ = __or__
    def __invert__(self): return SBool(z3.Not(self.e))
    def __xor__(self, o): return SBool(z3.Xor(self.e, SBool.of(o)))
    __rxor__ = __xor__
    def __eq__(self, o):
        if isinstance(o, (SBool, bool)): return SBool(self.e == SBool.of(o))
        return bool(self) == o
    def __ne__(self, o):
        if isinstance(o, (SBool, bool)): return SBool(self.e != SBool.of(o))
        return bool(self) != o
    def __repr__(self): return 'SBool(%s)' % self.e
    # numeric use of booleans (True == 1)
    def __int__(self): return int(bool(self))
    def __index__(self): return int(bool(self))
    def __add__(self, o): return SInt(z3.If(self.e, 1, 0)) + o
    __radd__ = __add__
    def __mul__(self, o): return SInt(z3.If(self.e, 1, 0)) * o
    __rmul__ = __mul__
    def logical_not(self): return ~self


def sand(*xs):
    return SBool(z3.And(*[SBool.of(x) for x in xs]))

def sor(*xs):
    return SBool(z3.Or(*[SBool.of(x) for x in xs]))

def snot(x):
    return SBool(z3.Not(SBool.of(x)))

def ite(c, a, b):
    """Symbolic if-then-else over numbers."""
    ce = SBool.of(c)
    if z3.is_true(ce): return a
    if z3.is_false(ce): return b
    if _is_intlike(a) and _is_intlike(b):
        return SInt(z3.If(ce, lift_int(a), lift_int(b)))
    return SReal(z3.If(ce, lift_real(a), lift_real(b)))


class _SNum(object):
    __slots__ = ('e', 'lo', 'hi')

    def __hash__(self): return 0

    def _cmp(self, o, op):
        if o is None or isinstance(o, str): return NotImplemented
        try:
            a, b = _coerce(self, o)
        except TypeError:
            return NotImplemented
        return SBool(op(a, b))

    def __lt__(self, o): return self._cmp(o, lambda a, b: a < b)
    def __le__(self, o): return self._cmp(o, lambda a, b: a <= b)
    def __gt__(self, o): return self._cmp(o, lambda a, b: a > b)
    def __ge__(self, o): return self._cmp(o, lambda a, b: a >= b)
    def __eq__(self, o):
        if o is None or isinstance(o, (str, list, tuple, dict)): return False
        r = self._cmp(o, lambda a, b: a == b)
        return False if r is NotImplemented else r
    def __ne__(self, o):
        if o is None or isinstance(o, (str, list, tuple, dict)): return True
        r = self._cmp(o, lambda a, b: a != b)
        return True if r is NotImplemented else r

    def __bool__(self):
        return _ctx.branch(self.e != 0)

    def __neg__(self): return type(self)(-self.e)
    def __pos__(self): return self
    def __abs__(self): return type(self)(z3.If(self.e >= 0, self.e, -self.e))

    def _bin(self, o, op, rev=False):
        if isinstance(o, SBool): o = SInt(z3.If(o.e, 1, 0))
        try:
            a, b = _coerce(self, o)
        except TypeError:
            return NotImplemented
        if rev: a, b = b, a
        r = op(a, b)
        return SInt(r) if z3.is_int(r) else SReal(r)

    def __add__(self, o): return self._bin(o, lambda a, b: a + b)
    def __radd__(self, o): return self._bin(o, lambda a, b: a + b, True)
    def __sub__(self, o): return self._bin(o, lambda a, b: a - b)
    def __rsub__(self, o): return self._bin(o, lambda a, b: a - b, True)
    def __mul__(self, o): return self._bin(o, lambda a, b: a * b)
    def __rmul__(self, o): return self._bin(o, lambda a, b: a * b, True)

    def __truediv__(self, o): return _div(self, o)
    def __rtruediv__(self, o): return _div(o, self)

    def __pow__(self, n):
        if isinstance(n, SInt):
            v = numeral_value(n.e)
            if v is None: raise Unsupported('symbolic exponent')
            n = v
        if isinstance(n, float) and n == int(n): n = int(n)
        if isinstance(n, float) and n == 0.5: return self.sqrt()
        if isinstance(n, int):
            if n == 0: return 1 if isinstance(self, SInt) else 1.0
            neg = n < 0
            n = abs(n)
            r = self
            for _ in range(n - 1): r = r * self
            return 1 / r if neg else r
        # optional harness-provided contract for non-integer powers (e.g. an
        # uninterpreted function); without one the operation is unsupported
        hook = getattr(_ctx, 'frac_pow', None) if _ctx is not None else None
        if hook is not None and isinstance(n, float):
            return hook(self, n)
        raise Unsupported('pow with exponent %r' % (n,))

    def __rpow__(self, base):
        raise Unsupported('symbolic exponent')

    def sqrt(self): return ssqrt(self)

    def conjugate(self): return self
    @property
    def real(self): return self
    @property
    def imag(self): return 0

    def __float__(self):
        v = numeral_value(self.e)
        if v is not None: return float(v)
        _ctx.aborted = 'float() of symbolic value'
        raise Unsupported('float() of symbolic value %s' % self)

    def __repr__(self):
        s = str(self.e)
        return '%s(%s)' % (type(self).__name__, s if len(s) < 80 else s[:77] + '...')

    def __format__(self, spec):
        raise Unsupported('format() of symbolic value')


def _coerce(a, b):
    """Return z3 terms for a, b with a common sort."""
    ea = a.e if isinstance(a, _SNum) else None
    eb = b.e if isinstance(b, _SNum) else None
    if ea is None:
        ea = lift_int(a) if (_is_intlike(a) and z3.is_int(eb)) else lift_real(a)
    if eb is None:
        eb = lift_int(b) if (_is_intlike(b) and z3.is_int(ea)) else lift_real(b)
    if z3.is_int(ea) and not z3.is_int(eb): ea = z3.ToReal(ea)
    if z3.is_int(eb) and not z3.is_int(ea): eb = z3.ToReal(eb)
    return ea, eb


def _div(a, b):
    ea, eb = lift_real(a), lift_real(b)
    nz = z3.simplify(eb != 0)
    if z3.is_false(nz): raise ZeroDivisionError('float division by zero')
    if not z3.is_true(nz):
        if not _ctx.branch(nz):
            raise ZeroDivisionError('float division by zero (symbolic)')
    return SReal(ea / eb)


class SReal(_SNum):
    __slots__ = ()
    def __init__(self, e):
        self.e = e
    def __int__(self):
        v = numeral_value(self.e)
        if v is not None: return int(v)
        raise Unsupported('int() of symbolic real')
    def __round__(self, n=None):
        raise Unsupported('round() of symbolic real')
    def is_integer(self):
        raise Unsupported('is_integer of symbolic real')


class SInt(_SNum):
    __slots__ = ()
    def __init__(self, e):
        self.e = e
        self.lo = self.hi = None

    def __floordiv__(self, o):
        if isinstance(o, int) and o > 0: return SInt(self.e / o)
        if isinstance(o, SInt):
            return SInt(self.e / o.e)   # python floors; z3 agrees for positive divisor
        raise Unsupported('floordiv by %r' % (o,))
    def __rfloordiv__(self, o):
        return SInt(lift_int(o) / self.e)
    def __mod__(self, o):
        if isinstance(o, int) and o > 0: return SInt(self.e % o)
        if isinstance(o, SInt): return SInt(self.e % o.e)
        raise Unsupported('mod by %r' % (o,))
    def __rmod__(self, o):
        return SInt(lift_int(o) % self.e)
    def __divmod__(self, o):
        return self // o, self % o

    def __index__(self):
        return self.concretize()
    def __int__(self):
        return self.concretize()

    def concretize(self):
        """Fork over the feasible values, smallest first (small ranges only)."""
        v = numeral_value(self.e)
        if v is not None: return v
        for _ in range(4096):
            lo = self._min_value()
            if _ctx.branch(self.e == lo):
                return lo
        raise EngineAbort('concretize: too many values')

    def _min_value(self):
        o = z3.Optimize()
        o.set('timeout', _ctx.timeout_ms)
        for c in _ctx.slice_for(self.e == self.e + 0): o.add(c)
        h = o.minimize(self.e)
        if str(o.check()) == 'sat':
            return o.lower(h).as_long()
        _ctx.aborted = 'concretize: no minimum'
        raise EngineAbort('concretize: cannot minimise')


def ssqrt(x):
    c = _ctx
    if not isinstance(x, _SNum):
        import math
        return math.sqrt(x)
    e = z3.simplify(lift_real(x))
    v = numeral_value(e)
    if v is not None:
        if v < 0: raise ValueError('math domain error')
        # exact rational square root if it exists
        from math import isqrt
        fr = Fraction(v)
        n, d = fr.numerator, fr.denominator
        if isqrt(n) ** 2 == n and isqrt(d) ** 2 == d:
            return SReal(z3.RealVal(Fraction(isqrt(n), isqrt(d))))
    key = e.get_id()
    hit = c.sqrt_cache.get(key)
    if hit is not None: return hit[1]
    # x = a*a or a**2  ->  |a|
    a = _square_root_of_square(e)
    if a is not None:
        r = SReal(z3.If(a >= 0, a, -a))
        c.sqrt_cache[key] = (e, r)
        return r
    neg = z3.simplify(e < 0)
    if not z3.is_false(neg):
        if c.branch(neg):
            raise ValueError('math domain error (symbolic sqrt of negative)')
    r = z3.Real(c.fresh_name('sqrt'))
    c.add(r >= 0)
    c.add(r * r == e)
    out = SReal(r)
    c.sqrt_cache[key] = (e, out)
    return out


def _square_root_of_square(e):
    if z3.is_app(e):
        k = e.decl().kind()
        ch = e.children()
        if k == z3.Z3_OP_MUL and len(ch) == 2 and ch[0].eq(ch[1]):
            return ch[0]
        if k == z3.Z3_OP_POWER and len(ch) == 2:
            v = numeral_value(ch[1])
            if v == 2: return ch[0]
    return None


def smin(*args, **kw):
    import builtins
    if len(args) == 1: args = list(args[0])
    if 'key' in kw or not any(is_sym(a) for a in args):
        return builtins.min(args, **kw)
    r = args[0]
    for a in args[1:]:
        r = ite(a < r, a, r)
    return r

def smax(*args, **kw):
    import builtins
    if len(args) == 1: args = list(args[0])
    if 'key' in kw or not any(is_sym(a) for a in args):
        return builtins.max(args, **kw)
    r = args[0]
    for a in args[1:]:
        r = ite(a > r, a, r)
    return r


# ---------------------------------------------------------------------------
# model -> python values

def model_value(m, e):
    """Evaluate z3 term in model to Fraction / int / bool."""
    v = m.eval(e, model_completion=True)
    if z3.is_int_value(v): return v.as_long()
    if z3.is_rational_value(v):
        return Fraction(v.numerator_as_long(), v.denominator_as_long())
    if z3.is_true(v): return True
    if z3.is_false(v): return False
    if z3.is_algebraic_value(v):
        a = v.approx(20)
        return Fraction(a.numerator_as_long(), a.denominator_as_long())
    if z3.is_bv_value(v): return v.as_long()
    if z3.is_string_value(v): return v.as_string()
    return str(v)


# ---------------------------------------------------------------------------
# explorer

class PathResult(object):
    def __init__(self, decisions, outcome, failures, unknowns, notes, aborted):
        self.decisions = decisions
        self.outcome = outcome
        self.failures = failures
        self.unknowns = unknowns
        self.notes = notes
        self.aborted = aborted


def explore(fn, ctx_obj=None, max_paths=2000, wall_s=None, on_path=None, profile_repo=True):
    """Run fn() repeatedly until every feasible path has been executed.

    fn takes the Ctx; it creates its symbols (deterministically), runs the
    real code and calls ctx.prove(...) for its obligations.  Returns a dict
    with the list of PathResult and exhaustion flag.  On the first path the
    functions of the repository that execute are recorded (sys.setprofile)."""
    import sys as _sys, os as _os
    c = ctx_obj or Ctx()
    old = _ctx
    set_ctx(c)
    pending = [[]]
    results = []
    t0 = time.time()
    exhausted = True
    functions = set()
    repo = _os.environ.get('PYTOUGH_REPO', '/repo')
    def prof(frame, event, arg):
        if event == 'call':
            co = frame.f_code
            if co.co_filename.startswith(repo):
                functions.add('%s:%s' % (_os.path.basename(co.co_filename), co.co_name))
    try:
        while pending:
            if len(results) >= max_paths or (wall_s and time.time() - t0 > wall_s):
                exhausted = False
                break
            prefix = pending.pop()
            c.reset(prefix)
            outcome = 'ok'
            first = profile_repo and not results and not _os.environ.get("VX_NOPROFILE")
            if first: _sys.setprofile(prof)
            try:
                ret = fn(c)
                if ret is not None: outcome = ret
            except EngineAbort as ex:
                outcome = 'abort: %s' % ex
                if not c.aborted: c.aborted = str(ex)
            finally:
                if first: _sys.setprofile(None)
            c.stats['paths'] += 1
            pending.extend(c.new_pending)
            pr = PathResult(list(c.decisions), outcome, c.failures, c.unknowns,
                            c.path_notes, c.aborted)
            results.append(pr)
            if on_path: on_path(pr)
    finally:
        set_ctx(old)
    return dict(paths=results, exhausted=exhausted and not pending,
                pending=len(pending), stats=c.stats, wall_s=time.time() - t0,
                ctx=c, functions=sorted(functions))
