"""Bounded symbolic strings (BStr): a vector of z3 Int character codes with a
symbolic length.  Used for C16 (Fortran number readers) where the *content and
length* of the text are symbolic.  All operations are encoded as terms
(prefix counters, ite-shifts) - no forking - except bool()/float()/int().

Invariant: codes[i] == 0  <=>  i >= n   (0 is not a character of the alphabet).
"""
import builtins
import z3
from . import sym
from .sym import SBool, SInt, Unsupported

WS_CODES = (32, 9, 10, 11, 12, 13)


BW = 8   # characters, lengths and positions are 8-bit vectors (signed compare; all values < 128)

def zI(v): return z3.BitVecVal(v, BW)

def zvar(name): return z3.BitVec(name, BW)


def is_ws(c):
    return z3.Or(*[c == w for w in WS_CODES])


def _sel(codes, idx_terms_default0, k):
    """codes[k] if 0 <= k < len else 0 (k concrete)."""
    if 0 <= k < builtins.len(codes): return codes[k]
    return zI(0)


class BStr(object):
    __slots__ = ('codes', 'n')

    def __init__(self, codes, n):
        self.codes = list(codes)
        self.n = n

    # -- constructors
    @staticmethod
    def fresh(c, base, N, alphabet_constraint=None):
        """Arbitrary string of length 0..N over the given alphabet (a function
        code -> z3 Bool); adds the well-formedness constraints to the pc."""
        codes = [zvar('%s.%d' % (base, i)) for i in range(N)]
        n = zvar('%s.len' % base)
        c.add(z3.And(n >= zI(0), n <= zI(N)))
        for i, ch in enumerate(codes):
            ok = alphabet_constraint(ch) if alphabet_constraint else z3.And(ch >= zI(1), ch <= zI(126))
            c.add(z3.If(n > zI(i), ok, ch == zI(0)))
        return BStr(codes, n)

    @staticmethod
    def of(x):
        if isinstance(x, BStr): return x
        if isinstance(x, str):
            return BStr([zI(ord(ch)) for ch in x], zI(builtins.len(x)))
        raise TypeError('not a string: %r' % (x,))

    @property
    def cap(self): return builtins.len(self.codes)

    def present(self, i): return self.codes[i] != zI(0)

    # -- python protocol
    def __hash__(self): return 0
    def __len__(self):
        raise Unsupported('len() of BStr through builtin; use shadowed len')
    def slen(self): return SInt(z3.BV2Int(self.n, is_signed=False))
    def __bool__(self):
        return sym.ctx().branch(self.n != zI(0))

    def eq_expr(self, o):
        if not isinstance(o, (str, BStr)): return z3.BoolVal(False)
        o = BStr.of(o)
        m = builtins.max(self.cap, o.cap)
        parts = [self.n == o.n]
        for i in range(m):
            parts.append(_sel(self.codes, None, i) == _sel(o.codes, None, i))
        return z3.And(*parts)

    def __eq__(self, o):
        r = z3.simplify(self.eq_expr(o))
        if z3.is_true(r): return True
        if z3.is_false(r): return False
        return SBool(r)

    def __ne__(self, o):
        r = self.__eq__(o)
        if isinstance(r, bool): return not r
        return SBool(z3.Not(r.e))

    # -- string methods used by the code under test
    def strip(self, chars=None):
        if chars is not None: raise Unsupported('BStr.strip(chars)')
        N = self.cap
        if N == 0: return self
        c = self.codes
        ws = [is_ws(x) for x in c]
        lead = zI(0)
        allws = z3.BoolVal(True)
        terms = []
        for i in range(N):
            allws = z3.And(allws, ws[i])
            terms.append(z3.If(allws, zI(1), zI(0)))
        lead = terms[0]
        for t_ in terms[1:]: lead = lead + t_
        end = zI(0)
        for i in range(N):           # last non-ws present index + 1
            end = z3.If(z3.And(c[i] != 0, z3.Not(ws[i])), zI(i + 1), end)
        newn = z3.If(end > lead, end - lead, zI(0))
        out = []
        for j in range(N):
            v = zI(0)
            for k in range(N - j - 1, -1, -1):
                v = z3.If(lead == zI(k), c[j + k], v)
            out.append(z3.If(zI(j) < newn, v, zI(0)))
        return BStr(out, newn)

    def lstrip(self, chars=None): raise Unsupported('BStr.lstrip')
    def rstrip(self, chars=None):
        if chars is not None:
            # only the pattern rstrip('\n') on a cell string: treat generally
            raise Unsupported('BStr.rstrip(chars)')
        raise Unsupported('BStr.rstrip')

    def lower(self):
        return BStr([z3.If(z3.And(x >= 65, x <= 90), x + 32, x) for x in self.codes], self.n)

    def upper(self):
        return BStr([z3.If(z3.And(x >= 97, x <= 122), x - 32, x) for x in self.codes], self.n)

    def map_where(self, mask, newcode):
        return BStr([z3.If(m, newcode, x) for x, m in zip(self.codes, mask)], self.n)

    def delete_where(self, drop):
        """remove the cells i with drop[i] (z3 Bool list)."""
        N = self.cap
        c = self.codes
        keep = [z3.And(c[i] != 0, z3.Not(drop[i])) for i in range(N)]
        pos = []
        run = zI(0)
        for i in range(N):
            pos.append(run)
            run = run + z3.If(keep[i], zI(1), zI(0))
        newn = run
        out = []
        for j in range(N):
            v = zI(0)
            for i in range(N - 1, j - 1, -1):   # cell i can only move left: i >= j
                v = z3.If(z3.And(keep[i], pos[i] == zI(j)), c[i], v)
            out.append(v)
        return BStr(out, newn)

    def expand_where(self, match, first, second):
        """each cell i with match[i] becomes two cells first(i), second(i)
        (functions index -> z3 Int code); others are kept."""
        N = self.cap
        c = self.codes
        mt = [z3.And(c[i] != 0, match[i]) for i in range(N)]
        pos = []
        run = zI(0)
        for i in range(N):
            pos.append(zI(i) + run)
            run = run + z3.If(mt[i], zI(1), zI(0))
        newn = self.n + run
        out = []
        for j in range(2 * N):
            v = zI(0)
            # pos[i] in [i, 2i]  =>  cell i can land on j only if (j-1)/2 <= i <= j
            for i in range(builtins.min(N - 1, j), builtins.max(0, (j - 1) // 2) - 1, -1):
                v = z3.If(z3.And(c[i] != 0, pos[i] == zI(j)), z3.If(mt[i], first(i), c[i]),
                          z3.If(z3.And(mt[i], pos[i] + zI(1) == zI(j)), second(i), v))
            out.append(v)
        return BStr(out, newn)

    def replace(self, old, new, count=-1):
        if not (isinstance(old, str) and isinstance(new, str)) or count != -1:
            raise Unsupported('BStr.replace with symbolic pattern')
        if builtins.len(old) != 1: raise Unsupported('BStr.replace multi-char pattern')
        oc = ord(old)
        mask = [x == oc for x in self.codes]
        if builtins.len(new) == 1:
            return self.map_where(mask, zI(ord(new)))
        if builtins.len(new) == 0:
            return self.delete_where(mask)
        if builtins.len(new) == 2:
            a, b = ord(new[0]), ord(new[1])
            return self.expand_where(mask, lambda i: zI(a), lambda i: zI(b))
        raise Unsupported('BStr.replace with replacement longer than 2')

    def __getitem__(self, i):
        cx = sym.ctx()
        if isinstance(i, slice):
            if i.step not in (None, 1): raise Unsupported('BStr slice step')
            a = 0 if i.start is None else i.start
            b = self.cap if i.stop is None else i.stop
            if a < 0 or b < 0: raise Unsupported('BStr negative slice')
            b = builtins.min(b, self.cap)
            if b <= a: return ''
            codes = self.codes[a:b]
            ln = self.n - zI(a)
            newn = z3.If(self.n < zI(a), zI(0), z3.If(ln > zI(b - a), zI(b - a), ln))
            return BStr(codes, newn)
        i = builtins.int(i)
        if i < 0: raise Unsupported('BStr negative index')
        if i >= self.cap or not cx.branch(self.n > zI(i)):
            raise IndexError('string index out of range')
        return BStr([self.codes[i]], zI(1))

    def concat(self, o):
        o = BStr.of(o)
        Na, Nb = self.cap, o.cap
        if Nb == 0: return self
        if Na == 0: return o
        out = []
        na = self.n
        for j in range(Na + Nb):
            v = zI(0)
            for k in range(builtins.min(Na, j), -1, -1):   # na == k, take o[j-k]
                if 0 <= j - k < Nb:
                    v = z3.If(na == zI(k), o.codes[j - k], v)
            a = self.codes[j] if j < Na else zI(0)
            out.append(z3.If(na > zI(j), a, v))
        return BStr(out, self.n + o.n)

    def __add__(self, o):
        if isinstance(o, (str, BStr)): return self.concat(o)
        return NotImplemented
    def __radd__(self, o):
        if isinstance(o, str): return BStr.of(o).concat(self)
        return NotImplemented

    def _all_present(self, pred):
        """n > 0 and every present character satisfies pred"""
        return SBool(z3.And(self.n != zI(0), *[z3.Or(x == zI(0), pred(x)) for x in self.codes]))

    def isdigit(self):
        return self._all_present(lambda x: z3.And(x >= zI(48), x <= zI(57)))

    def isspace(self):
        return self._all_present(is_ws)

    def isalpha(self):
        return self._all_present(lambda x: z3.Or(z3.And(x >= zI(65), x <= zI(90)), z3.And(x >= zI(97), x <= zI(122))))

    def isalnum(self):
        return self._all_present(lambda x: z3.Or(z3.And(x >= zI(48), x <= zI(57)), z3.And(x >= zI(65), x <= zI(90)), z3.And(x >= zI(97), x <= zI(122))))

    def isnumeric(self): return self.isdigit()
    def isdecimal(self): return self.isdigit()

    def startswith(self, p):
        p = BStr.of(p)
        k = p.cap
        return SBool(z3.And(self.n >= zI(k), *[_sel(self.codes, None, i) == p.codes[i] for i in range(k)]))

    def __contains__(self, sub):
        return builtins.bool(self.contains(sub))

    def contains(self, sub):
        if not isinstance(sub, str) or builtins.len(sub) != 1:
            raise Unsupported('BStr contains multi-char')
        return SBool(z3.Or(*[x == ord(sub) for x in self.codes]))

    def __iter__(self):
        raise Unsupported('iteration over BStr')

    def __repr__(self):
        return 'BStr(cap=%d)' % self.cap

    # -- model extraction
    def value_in(self, m):
        n = sym.model_value(m, self.n)
        return ''.join(chr(sym.model_value(m, c)) for c in self.codes[:n])


def join(sep, items):
    if sep != '': raise Unsupported('BStr join with separator')
    out = None
    for it in items:
        b = BStr.of(it)
        out = b if out is None else out.concat(b)
    return out if out is not None else ''


# ---------------------------------------------------------------------------
# DFA runner

class DFA(object):
    """Deterministic automaton over character predicates.
    classes: list of (name, python predicate on int code, z3 predicate on term)
    trans: dict state -> list of (class name, next state); missing -> dead
    """
    DEAD = -1

    def __init__(self, classes, trans, start, accepting, loop_all=None):
        self.classes = classes
        self.trans = trans
        self.start = start
        self.accepting = set(accepting)
        self.cmap = {n: (py, zz) for n, py, zz in classes}

    def run_concrete(self, s):
        st = self.start
        for ch in s:
            o = ord(ch)
            nxt = self.DEAD
            if st != self.DEAD:
                for cname, ns in self.trans.get(st, []):
                    if self.cmap[cname][0](o): nxt = ns; break
            st = nxt
        return st in self.accepting

    def run_symbolic(self, b):
        st = zI(self.start)
        for x in b.codes:
            nxt = zI(self.DEAD)
            # build ite over states
            for s, edges in self.trans.items():
                e = zI(self.DEAD)
                for cname, ns in reversed(edges):
                    e = z3.If(self.cmap[cname][1](x), zI(ns), e)
                nxt = z3.If(st == s, e, nxt)
            st = z3.If(x != 0, nxt, st)
        return z3.Or(*[st == a for a in sorted(self.accepting)])
