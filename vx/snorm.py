"""Opt-in replacement for `norm` inside reloaded modules: the Euclidean norm
of a symbolic vector is kept as its SQUARE (a polynomial, no sqrt variable).

* comparing two such norms (`<`, `<=`, `>`, `>=`, `==`, `!=`) compares the
  squares - exact, because sqrt is strictly monotone on the non-negatives;
  the difference is expanded to a sum of monomials, so the quadratic terms of
  |p - a|^2 - |p - b|^2 cancel and the comparison is LINEAR in p;
* comparing with a concrete number t: t < 0 decides it, otherwise the square
  is compared with t*t;
* any other use (arithmetic, printing ...) falls back to the engine's sqrt
  variable  r >= 0, r*r = square  on first access of `.e`.

Use:  snorm.install(ld, ['geometry', 'mulgrids'])  after loader.load(...).
It is a stub of numpy.linalg.norm: list it in the harness's assumptions.
"""
import numpy as _np
import z3
from fractions import Fraction
from . import sym, npshim
from .sym import SReal, SBool


class SNorm(SReal):
    __slots__ = ('sq', '_r')

    def __init__(self, sq):
        self.sq = sq
        self._r = None

    @property
    def e(self):
        """sqrt variable, created on first use.  sq is a sum of squares by
        construction, so no `sq < 0` branch is needed (ssqrt would fork on it)."""
        if self._r is None:
            c = sym.ctx()
            v = sym.numeral_value(self.sq)
            if v is not None or c is None:
                self._r = sym.ssqrt(SReal(self.sq)).e
            else:
                key = self.sq.get_id()
                hit = c.sqrt_cache.get(key)
                if hit is not None and hit[0].eq(self.sq):
                    self._r = hit[1].e
                else:
                    r = z3.Real(c.fresh_name('norm'))
                    c.add(r >= 0)
                    c.add(r * r == self.sq)
                    c.sqrt_cache[key] = (self.sq, SReal(r))
                    self._r = r
        return self._r

    def _cmp2(self, o, op):
        if isinstance(o, SNorm):
            d = z3.simplify(self.sq - o.sq, som=True)
            return SBool(op(d, z3.RealVal(0)))
        if isinstance(o, (int, float, Fraction, _np.integer, _np.floating)) and not isinstance(o, bool):
            t = Fraction(o) if not isinstance(o, Fraction) else o
            if t < 0:
                return SBool(z3.BoolVal(bool(op(1, 0))))      # norm >= 0 > t
            return SBool(op(self.sq, z3.RealVal(str(t * t))))
        return None

    def __lt__(self, o):
        r = self._cmp2(o, lambda a, b: a < b)
        return r if r is not None else SReal.__lt__(self, o)
    def __le__(self, o):
        r = self._cmp2(o, lambda a, b: a <= b)
        return r if r is not None else SReal.__le__(self, o)
    def __gt__(self, o):
        r = self._cmp2(o, lambda a, b: a > b)
        return r if r is not None else SReal.__gt__(self, o)
    def __ge__(self, o):
        r = self._cmp2(o, lambda a, b: a >= b)
        return r if r is not None else SReal.__ge__(self, o)
    def __eq__(self, o):
        r = self._cmp2(o, lambda a, b: a == b)
        return r if r is not None else SReal.__eq__(self, o)
    def __ne__(self, o):
        r = self._cmp2(o, lambda a, b: a != b)
        return r if r is not None else SReal.__ne__(self, o)
    def __hash__(self): return 0

    def __repr__(self):
        s = str(self.sq)
        return 'SNorm(sqrt(%s))' % (s if len(s) < 70 else s[:67] + '...')


def norm(x, *a, **kw):
    if not a and not kw and npshim._has_sym(x):
        npshim._hit('np.linalg.norm (kept as its square; comparisons on squares)')
        arr = _np.asarray(x, dtype=object).ravel()
        s = 0
        for v in arr: s = s + v * v
        if isinstance(s, SReal):
            return SNorm(z3.simplify(s.e, som=True))
        return sym.ssqrt(s)
    return npshim.norm(x, *a, **kw)


def norm_zc(x, *a, **kw):
    """Like norm(), but components that the solver shows to be zero on the
    current path (pc AND component != 0 is unsat) are dropped first; a single
    remaining component c gives |c| exactly (no square root at all).  Meant
    for axis-parallel configurations, where one component of every difference
    vector vanishes semantically but not syntactically."""
    if not a and not kw and npshim._has_sym(x):
        c = sym.ctx()
        arr = _np.asarray(x, dtype=object).ravel()
        keep = []
        for v in arr:
            if not isinstance(v, SReal):
                if v != 0: keep.append(v)
                continue
            e = z3.simplify(v.e)
            nv = sym.numeral_value(e)
            if nv is not None:
                if nv != 0: keep.append(v)
                continue
            r, _ = c.solve(e != 0)
            if r != 'unsat': keep.append(v)
        npshim._hit('np.linalg.norm (zero components dropped by solver lemma; |c| for a single component)')
        if not keep: return SReal(z3.RealVal(0))      # stays a proxy: the caller's object array must not mix in floats
        if len(keep) == 1: return abs(keep[0])
        return norm(_np.array(keep, dtype=object))
    return npshim.norm(x, *a, **kw)


def install(ld, modules, zero_check=False):
    """Rebind the global name `norm` in the given reloaded modules."""
    for m in modules:
        mod = getattr(ld, m)
        if 'norm' in mod.__dict__:
            mod.__dict__['norm'] = norm_zc if zero_check else norm
